"""E1: forward symbolic execution of the real functions' ASTs.

* Paths fork at symbolic branches (re-execution with a decision vector).
* Loops over concrete iterables are unrolled; loops over symbolic sequences
  are cut points and need a LoopSpec (fold specification): the body is
  executed once for a generic element from a havocked state and its effect on
  the carried locations is compared with the specification's step function
  (= invariant preservation for `acc = Spec(prefix)`); after the loop the
  carried locations hold the specification's fold result.
* Calls to functions under contract are replaced by their summary
  (assert pre / havoc frame / assume post); a few trivial accessors may be
  inlined when the harness lists them; every other call is outside the
  subset (EngineError).
"""
import ast
import os
import time
import z3
from fractions import Fraction

from .values import *          # noqa
from .values import _cnt
from . import values as V
from .source import Repo, loops_of


# ------------------------------------------------------------------ control
class PyRaise(Exception):
    def __init__(self, cls, args=(), node=None):
        Exception.__init__(self, cls)
        self.cls = cls
        self.args_ = args
        self.node = node


class _Return(Exception):
    def __init__(self, value):
        self.value = value


class _Break(Exception):
    pass


class _Continue(Exception):
    pass


class PathEnd(Exception):
    """path deliberately terminated (e.g. after a loop-body check)."""


class Infeasible(Exception):
    pass


class StopRun(Exception):
    """canary mode: the expected obligation failed, nothing more to learn."""


EXC_PARENTS = {
    'ValueError': 'Exception', 'KeyError': 'LookupError', 'IndexError': 'LookupError',
    'LookupError': 'Exception', 'TypeError': 'Exception', 'AssertionError': 'Exception',
    'ZeroDivisionError': 'ArithmeticError', 'ArithmeticError': 'Exception',
    'OverflowError': 'ArithmeticError', 'AttributeError': 'Exception',
    'NotImplementedError': 'RuntimeError', 'RuntimeError': 'Exception',
    'LinAlgError': 'ValueError', 'Taper_Error': 'ValueError',
    'StopIteration': 'Exception', 'OSError': 'Exception', 'Exception': 'BaseException',
}


def exc_isinstance(cls, base):
    while cls is not None:
        if cls == base:
            return True
        cls = EXC_PARENTS.get(cls)
    return False


# ------------------------------------------------------------------ objects
_STAMP = [0]


def _stamp():
    _STAMP[0] += 1
    return _STAMP[0]


class SObj:
    """heap object: class name, identity term (z3 Int), explicit fields.
    Fields that were never written are read through the schema as
    uninterpreted functions of the identity (functional consistency)."""

    def __init__(self, cls, ident=None, fields=None, label=None):
        self.cls = cls
        self.label = label or cls
        if ident is None:
            ident = z3.Int(fresh_name('ref.' + self.label))
        self.ident = ident
        self.fields = dict(fields or {})
        self.stamp = _stamp()

    def __repr__(self):
        return '<%s %s>' % (self.cls, self.ident)


class SSeq:
    """immutable symbolic sequence: length (int-like) and element function."""

    def __init__(self, length, at, label='seq'):
        self.length = length
        self.at = at
        self.label = label

    def __repr__(self):
        return '<SSeq %s len=%s>' % (self.label, self.length)


class SList:
    """mutable list value = concatenation of chunks:
       ('conc', [values]) | ('seq', SSeq) | ('opaque', name, length)"""

    def __init__(self, chunks=None):
        self.chunks = list(chunks or [])
        self.stamp = _stamp()

    def copy(self):
        return SList([(c[0], list(c[1])) if c[0] == 'conc' else c for c in self.chunks])

    def append(self, v):
        if self.chunks and self.chunks[-1][0] == 'conc':
            self.chunks[-1][1].append(v)
        else:
            self.chunks.append(('conc', [v]))

    def length(self):
        n = 0
        for c in self.chunks:
            if c[0] == 'conc':
                n = r_add(n, len(c[1]))
            elif c[0] == 'seq':
                n = r_add(n, c[1].length)
            else:
                n = r_add(n, c[2])
        return n

    def is_concrete(self):
        return all(c[0] == 'conc' for c in self.chunks)

    def concrete(self):
        out = []
        for c in self.chunks:
            out.extend(c[1])
        return out

    def __repr__(self):
        return '<SList %s>' % (self.chunks,)


class SSet:
    """set of int-like / object keys: base membership predicate + adds."""

    def __init__(self, base=None, label='set'):
        self.base = base            # function key_term -> z3 Bool, or None (= empty)
        self.adds = []              # key terms
        self.objs = []              # the added values themselves (parallel to adds where known)
        self.label = label
        self.stamp = _stamp()

    def copy(self):
        s = SSet(self.base, self.label)
        s.adds = list(self.adds)
        s.objs = list(self.objs)
        return s


class SDict:
    """dict with int-like / object keys.  base_has/base_get: functions of the
    key term (None = empty dict); writes kept in order."""

    def __init__(self, base_has=None, base_get=None, label='dict'):
        self.base_has = base_has
        self.base_get = base_get
        self.writes = []            # (key_term, value)
        self.label = label
        self.stamp = _stamp()

    def copy(self):
        d = SDict(self.base_has, self.base_get, self.label)
        d.writes = list(self.writes)
        d.vty = getattr(self, 'vty', None)
        return d


class AStr:
    """abstract string: list of tokens
       ('lit', text) | ('conv', spec, value) | ('ff', value, use_e, mods) | ('str', value)"""

    def __init__(self, toks):
        self.toks = []
        for t in toks:
            if t[0] == 'lit' and self.toks and self.toks[-1][0] == 'lit':
                self.toks[-1] = ('lit', self.toks[-1][1] + t[1])
            elif t[0] == 'lit' and t[1] == '':
                continue
            else:
                self.toks.append(t)

    def __repr__(self):
        return 'AStr(%r)' % (self.toks,)

    def is_lit(self):
        return all(t[0] == 'lit' for t in self.toks)

    def lit(self):
        return ''.join(t[1] for t in self.toks)


class FuncRef:
    def __init__(self, node, qual, module, cls=None):
        self.node = node
        self.qual = qual
        self.module = module
        self.cls = cls


class BoundMethod:
    def __init__(self, obj, fref):
        self.obj = obj
        self.fref = fref


class ClassRef:
    def __init__(self, name):
        self.name = name


class Builtin:
    def __init__(self, name, impl):
        self.name = name
        self.impl = impl

    def __repr__(self):
        return '<builtin %s>' % self.name


class Namespace:
    """np, sys, np.linalg ..."""

    def __init__(self, name, members):
        self.name = name
        self.members = members


class Closure:
    def __init__(self, node, env):
        self.node = node        # ast.Lambda
        self.env = env


class NestedFunc:
    """`def` inside a function: body + the live environment of the enclosing call"""

    def __init__(self, node, env, frame):
        self.node, self.env, self.frame = node, env, frame


class NDArr:
    """small dense array of scalar values, concrete shape (nested lists)."""

    def __init__(self, data, shape=None):
        self.data = data
        self.stamp = _stamp()
        self._shape = tuple(shape) if shape is not None else None      # only needed for arrays without elements

    @property
    def shape(self):
        s = []
        d = self.data
        while isinstance(d, list):
            s.append(len(d))
            d = d[0] if d else None
        s = tuple(s)
        if self._shape is not None and 0 in s and len(self._shape) >= len(s) and self._shape[:len(s)] == s:
            return self._shape            # an empty selection keeps its trailing axes ((0, 2), not (0,))
        return s

    def __repr__(self):
        return 'NDArr(%r)' % (self.data,)


class SArr:
    """symbolic array (any rank) with symbolic extent: elements are a function
    of the index tuple; writes kept as a store chain."""

    def __init__(self, getter, rank, kind, label='arr', length=None):
        self.getter = getter     # tuple of index values -> value
        self.rank = rank
        self.kind = kind
        self.label = label
        self.length = length
        self.writes = []         # (index tuple, value)
        self.stamp = _stamp()

    def copy(self):
        a = SArr(self.getter, self.rank, self.kind, self.label, self.length)
        a.writes = list(self.writes)
        return a

    def read(self, idx):
        v = self.getter(idx)
        for widx, wv in self.writes:
            c = b_and(*[r_cmp('==', a, b) for a, b in zip(idx, widx)])
            v = ite(c, wv, v)
        return v


class SArrRow:
    """a[i] of a rank-2 SArr (a view: writes go to the parent)."""

    def __init__(self, arr, i):
        self.arr = arr
        self.i = i


class FMap:
    """a heap field modelled as an explicit map  identity -> value  (Burstall):
    base = uninterpreted function of the identity, plus a store chain.  Used for
    fields that a loop writes on the *elements* of an unbounded sequence."""

    def __init__(self, eng, cls, field, ty, name=None):
        self.eng = eng
        self.cls = cls
        self.field = field
        self.ty = ty
        self.name = name or ('%s.%s' % (cls, field))
        self.writes = []
        self.stamp = 0          # pre-existing by definition

    def copy(self):
        m = FMap(self.eng, self.cls, self.field, self.ty, self.name)
        m.writes = list(self.writes)
        return m

    def read(self, ident):
        v = self.eng.make_typed(self.ty, self.name, [ident])
        for wid, wv in self.writes:
            v = self.eng.ite_value(SV(ident == wid, 'bool'), wv, v)
        return v

    def rebase(self, name):
        m = FMap(self.eng, self.cls, self.field, self.ty, name)
        return m


class LoopSpec:
    """Fold specification of a loop over a symbolic sequence (a cut point).

    The invariant is  carried = Spec(prefix of length i)  where Spec(prefix) is
    an uninterpreted value per carried location (a function of `key` and i),
    Spec(0) = the values on loop entry, and Spec(i+1) = step(Spec(i), elem_i).
    The engine proves, for a generic i, that one execution of the real loop
    body takes Spec(i) to step(Spec(i), elem_i) -- for every carried location --
    and continues after the loop with Spec(len).

    carried : list of location descriptors
                ('local', name) | ('attr', SObj, field) | ('yield',)
    step    : f(eng, before: dict loc->value, elem, i) -> dict loc->value, or a
              list of (guard, dict) alternatives (guards bool-like)
    result  : optional f(eng, init: dict, seq) -> dict of values after the loop
              (default: Spec(len) as uninterpreted values)
    key     : z3 terms identifying the sequence instance (arguments of the UFs)
    exits   : abrupt exits the body may take ('raise:ValueError', ...)
    assume  : optional f(eng, i, elem) -> bool-like, extra assumption for the generic iteration
    """

    def __init__(self, carried, step, name, key=(), result=None, exits=(), assume=None,
                 check=None, inv=None):
        # inv(eng, i, values) -> bool-like: an extra inductive invariant over the carried
        # values after i iterations: proved for i = 0 on entry, assumed for the generic i,
        # proved for i + 1 after the body, assumed for i = len after the loop
        self.inv = inv
        self.check = check
        self.carried = carried
        self.step = step
        self.name = name
        self.key = list(key)
        self.result = result
        self.exits = exits
        self.assume = assume


class Obligation:
    def __init__(self, name, ok, status, model, path, detail='', seconds=0.0, backend='z3'):
        self.name = name
        self.ok = ok
        self.status = status      # 'unsat' (discharged) | 'sat' | 'unknown'
        self.model = model
        self.path = path
        self.detail = detail
        self.seconds = seconds
        self.backend = backend


# ------------------------------------------------------------------ engine
class Engine:
    SOLVER_TIMEOUT_MS = 20000

    def __init__(self, repo, schema=None, summaries=None, inline=(), loop_specs=None,
                 unit='', fn_override=None, canary_expect=None):
        self.canary_expect = canary_expect
        self.repo = repo
        self.schema = schema or {}
        self.summaries = summaries or {}
        self.inline = set(inline)
        self.loop_specs = loop_specs or {}
        self.unit = unit
        self.fn_override = fn_override or {}   # qual -> mutated FunctionDef (canaries)
        self.obligations = []
        self.paths = 0
        self.solver_time = 0.0
        self.inlined_seen = set()
        self.auto_inlined = set()
        self.contracted = ()
        self.not_discharged = set()
        self.slow_budget_s = 900.0        # per unit: total time for solver calls beyond the 3 s attempt
        self.name_real_quotients = False  # opt-in per unit: a / b with symbolic b named q with q * b = a (b != 0 on the path)
        self.summaries_used = set()
        self.notes = []
        self.rechecked = {}
        self._ufs = {}
        self._globals_cache = {}

    # ---------------------------------------------------------- exploration
    def run(self, thunk, max_paths=4000):
        work = [[]]
        while work:
            dec = work.pop()
            self.paths += 1
            if self.paths > max_paths:
                raise EngineError('path explosion in %s' % self.unit)
            self.decisions = list(dec)
            self.pos = 0
            self.pc = []
            self.pending = []
            self.yield_stack = []
            self.frames = []
            self._fresh_ids = set()
            self.trace = []
            self.decided = {}
            self.fmaps = {}
            reset_names()
            from . import builtins as _B
            _B.const_axioms(self)
            try:
                thunk(self)
            except PathEnd:
                pass
            except Infeasible:
                pass
            except PyRaise as ex:
                self.oblige('%s/no-unexpected-exception' % self.unit, False,
                            detail='%s escaped the verified function (line %s)'
                                   % (ex.cls, getattr(ex.node, 'lineno', '?')))
            for alt in self.pending:
                work.append(alt)
        return self.obligations

    def run_catching(self, thunk):
        try:
            return self.run(thunk)
        except StopRun:
            return self.obligations

    def feasible(self, extra):
        s = z3.Solver()
        s.set('timeout', 400)
        for p in self.pc:
            s.add(p)
        s.add(extra)
        t0 = time.time()
        r = s.check()
        self.solver_time += time.time() - t0
        return r != z3.unsat

    def assume(self, f):
        f = bterm(f)
        self.pc.append(f)

    def decide(self, cond):
        """fork on a bool-like condition; returns a Python bool."""
        if not isinstance(cond, (SV, z3.ExprRef)):
            return bool(cond)
        c = z3.simplify(bterm(cond))
        if z3.is_true(c):
            return True
        if z3.is_false(c):
            return False
        # a condition decided before on this path (syntactically) needs no solver call
        key = c.sexpr()
        known = self.decided.get(key)
        if known is not None:
            return known
        if z3.is_not(c):
            k2 = self.decided.get(c.arg(0).sexpr())
            if k2 is not None:
                return not k2
        if self.pos < len(self.decisions):
            d = self.decisions[self.pos]
            self.pos += 1
            self.pc.append(c if d else z3.Not(c))
            self.decided[key] = d
            return d
        ft = self.feasible(c)
        ff = self.feasible(z3.Not(c))
        if ft and ff:
            self.pending.append(self.decisions[:self.pos] + [False])
            self.decisions.append(True)
            self.pos += 1
            self.pc.append(c)
            self.decided[key] = True
            return True
        if ft:
            self.decisions.append(True)
            self.pos += 1
            self.pc.append(c)
            self.decided[key] = True
            return True
        if ff:
            self.decisions.append(False)
            self.pos += 1
            self.pc.append(z3.Not(c))
            self.decided[key] = False
            return False
        raise Infeasible()

    def choose(self, n):
        """non-deterministic choice among n alternatives (always all feasible)."""
        if self.pos < len(self.decisions):
            d = self.decisions[self.pos]
            self.pos += 1
            return d
        for k in range(1, n):
            self.pending.append(self.decisions[:self.pos] + [k])
        self.decisions.append(0)
        self.pos += 1
        return 0

    # ---------------------------------------------------------- obligations
    def oblige(self, name, formula, detail=''):
        """prove `pc => formula`; records the result."""
        f = bterm(formula) if not isinstance(formula, bool) else z3.BoolVal(formula)
        s = z3.Solver()
        s.set('timeout', self.SOLVER_TIMEOUT_MS)
        for p in self.pc:
            s.add(p)
        s.add(z3.Not(f))
        t0 = time.time()
        backend = 'z3'
        s.set('timeout', min(3000, self.SOLVER_TIMEOUT_MS))
        r = s.check()
        if r == z3.unknown:
            # polynomial equalities under cos^2+sin^2=1 / definitional equalities: certificate search is cheap and
            # its result is confirmed by z3 (see polycert); otherwise the full budget, then the other solvers
            try:
                from . import polycert
                ok, info = polycert.certify(self.pc, f)
            except Exception:
                ok = False
            if ok:
                self.cert_used = getattr(self, 'cert_used', 0) + 1
                r, backend = z3.unsat, 'linear-combination-certificate(z3-checked identity)'
            elif name not in self.not_discharged and self.slow_budget_s > 0:
                s.set('timeout', self.SOLVER_TIMEOUT_MS)
                t1 = time.time()
                r = s.check()
                self.slow_budget_s -= time.time() - t1
        if r == z3.unknown and self.canary_expect is None and name not in self.not_discharged and self.slow_budget_s > 0:
            # (an obligation name that already has a refuted / undecided instance in this unit is not discharged whatever
            # its other instances do: they get the quick attempt only; the same once the unit has used up its budget for
            # long solver calls -- what stays `unknown` is reported as undecided, never as a violation)
            t1 = time.time()
            r, backend = self.second_opinion(s, f)
            self.slow_budget_s -= time.time() - t1
        if r == z3.unsat and self.canary_expect is None and os.environ.get('VERIF_TIER_EFFECTIVE') == 'thorough':
            # thorough tier: every discharged obligation is re-checked by an independent solver (cvc5 binary)
            rr = self.recheck_cvc5(s)
            self.rechecked[rr] = self.rechecked.get(rr, 0) + 1
            if rr == 'sat':
                r = z3.unknown
                backend = 'z3 says unsat, cvc5 says sat'
            elif rr == 'unsat':
                backend = backend + '+cvc5'
        dt = time.time() - t0
        self.solver_time += dt
        model = None
        if r == z3.sat and backend != 'z3':
            status = 'sat'
            model = {'note': 'refuted by %s (no model extracted)' % backend}
        elif r == z3.sat:
            m = s.model()
            model = {}
            for d in m.decls():
                try:
                    model[d.name()] = str(m[d])
                except Exception:
                    pass
            status = 'sat'
        elif r == z3.unsat:
            status = 'unsat'
        else:
            status = 'unknown'
        ob = Obligation(name, r == z3.unsat, status, model, list(self.decisions[:self.pos]),
                        detail, dt, backend)
        if status != 'unsat':
            ob.smt2 = s.to_smt2()
        self.obligations.append(ob)
        if not ob.ok:
            self.not_discharged.add(name)
        if self.canary_expect is not None and not ob.ok and \
                any(name.startswith(e) for e in self.canary_expect):
            raise StopRun()
        return ob.ok

    def recheck_cvc5(self, s):
        import subprocess
        import tempfile
        try:
            txt = s.to_smt2()
            with tempfile.NamedTemporaryFile('w', suffix='.smt2', delete=False) as fh:
                fh.write('(set-logic ALL)\n' + txt)
                path = fh.name
            p = subprocess.run(['/usr/bin/cvc5', '--tlimit=15000', path], capture_output=True, text=True, timeout=30)
            os.unlink(path)
            out = p.stdout.strip().split('\n')[0] if p.stdout else ''
            return out if out in ('sat', 'unsat') else 'unknown'
        except Exception:
            return 'unknown'

    def second_opinion(self, s, f):
        """an `unknown` from the default z3 configuration goes to z3's nlsat tactic and then
        to the cvc5 binary; budgets are large so that verdicts do not flip under load."""
        import subprocess
        import tempfile
        import os
        try:
            g = z3.Goal()
            for a in s.assertions():
                g.add(a)
            t = z3.Then('simplify', 'solve-eqs', 'qfnra-nlsat')
            ts = t.solver()
            ts.set('timeout', 60000)
            ts.add(g.as_expr())
            r = ts.check()
            if r != z3.unknown:
                return r, 'z3-nlsat'
        except z3.Z3Exception:
            pass
        try:
            ss = z3.Solver()
            ss.set('timeout', 90000)
            ss.set('smt.random_seed', 7)
            for a in s.assertions():
                ss.add(a)
            r = ss.check()
            if r != z3.unknown:
                return r, 'z3-seed7'
        except z3.Z3Exception:
            pass
        try:
            txt = s.to_smt2()
            with tempfile.NamedTemporaryFile('w', suffix='.smt2', delete=False) as fh:
                fh.write('(set-logic ALL)\n' + txt)
                path = fh.name
            p = subprocess.run(['/usr/bin/cvc5', '--tlimit=60000', path], capture_output=True, text=True,
                               timeout=90)
            os.unlink(path)
            out = p.stdout.strip().split('\n')[0] if p.stdout else ''
            if out == 'unsat':
                return z3.unsat, 'cvc5'
            if out == 'sat':
                return z3.sat, 'cvc5'
        except Exception:
            pass
        return z3.unknown, 'z3+cvc5'

    def cover(self, name):
        """reachability witness: the current path condition is satisfiable."""
        ok = self.feasible(z3.BoolVal(True))
        ob = Obligation('cover:' + name, ok, 'sat' if ok else 'unsat', None,
                        list(self.decisions[:self.pos]))
        ob.is_cover = True
        self.obligations.append(ob)

    # ---------------------------------------------------------- symbols
    def uf(self, name, *sorts):
        key = (name,) + tuple(str(s) for s in sorts)
        if key not in self._ufs:
            self._ufs[key] = z3.Function(name, *sorts)
        return self._ufs[key]

    def fresh_like(self, v, base):
        if isinstance(v, CX):
            return fresh_cx(base)
        if isinstance(v, SV):
            return {'int': fresh_int, 'real': fresh_real, 'bool': fresh_bool}[v.kind](base)
        if isinstance(v, bool):
            return fresh_bool(base)
        if isinstance(v, int):
            return fresh_int(base)
        if isinstance(v, Fraction):
            return fresh_real(base)
        if isinstance(v, SList):
            return SList([('opaque', fresh_name(base), fresh_int(base + '.len'))])
        if isinstance(v, list):
            return SList([('opaque', fresh_name(base), fresh_int(base + '.len'))])
        if isinstance(v, SArr):
            name = fresh_name(base)
            return self.sym_array(name, v.rank, v.kind, v.length)
        if isinstance(v, Opt) or v is None:
            return Opt(z3.Bool(fresh_name(base + '.isnone')), fresh_int(base + '.val'))
        if isinstance(v, SSet):
            f = z3.Function(fresh_name(base + '.has'), z3.IntSort(), z3.BoolSort())
            return SSet(lambda k, f=f: f(k), base)
        raise EngineError('cannot havoc value %r (%s)' % (v, base))

    def sym_array(self, name, rank, kind, length=None):
        Z = z3.IntSort()
        if kind == 'complex':
            fre = self.uf(name + '.re', *([Z] * rank + [z3.RealSort()]))
            fim = self.uf(name + '.im', *([Z] * rank + [z3.RealSort()]))

            def getter(idx, fre=fre, fim=fim):
                ts = [term(i) for i in idx]
                return CX(SV(fre(*ts), 'real'), SV(fim(*ts), 'real'))
        else:
            srt = {'real': z3.RealSort(), 'int': Z, 'bool': z3.BoolSort()}[kind]
            f = self.uf(name, *([Z] * rank + [srt]))

            def getter(idx, f=f, kind=kind):
                return SV(f(*[term(i) for i in idx]), kind)
        return SArr(getter, rank, kind, name, length)

    # ---------------------------------------------------------- schema / fields
    def field_type(self, cls, field):
        for c in self.repo.mro(cls) or [cls]:
            if (c, field) in self.schema:
                return self.schema[(c, field)]
        return None

    def make_typed(self, ty, name, args):
        """value of schema type `ty` as an uninterpreted function `name` of args
        (z3 Int terms)."""
        Z = z3.IntSort()
        sorts = [Z] * len(args)
        if ty == 'int':
            return SV(self.uf(name, *(sorts + [Z]))(*args), 'int')
        if ty == 'real':
            return SV(self.uf(name, *(sorts + [z3.RealSort()]))(*args), 'real')
        if ty == 'bool':
            return SV(self.uf(name, *(sorts + [z3.BoolSort()]))(*args), 'bool')
        if ty == 'complex':
            return CX(self.make_typed('real', name + '.re', args),
                      self.make_typed('real', name + '.im', args))
        if ty == 'optint':
            return Opt(self.uf(name + '.isnone', *(sorts + [z3.BoolSort()]))(*args),
                       self.make_typed('int', name + '.val', args))
        if ty == 'optreal':
            return Opt(self.uf(name + '.isnone', *(sorts + [z3.BoolSort()]))(*args),
                       self.make_typed('real', name + '.val', args))
        if ty == 'optcomplex':
            return Opt(self.uf(name + '.isnone', *(sorts + [z3.BoolSort()]))(*args),
                       self.make_typed('complex', name + '.val', args))
        if ty == 'ndbool2':
            return NDArr([self.make_typed('bool', '%s.%d' % (name, k), args) for k in range(2)])
        if ty == 'vec3':
            return NDArr([self.make_typed('real', '%s.%d' % (name, k), args) for k in range(3)])
        if ty.startswith('obj:'):
            cls = ty[4:]
            ident = self.uf(name, *(sorts + [Z]))(*args)
            return SObj(cls, ident, label=name)
        if ty.startswith('optobj:'):
            cls = ty[7:]
            ident = self.uf(name, *(sorts + [Z]))(*args)
            # identity 0 is reserved for None
            return OptObj(SObj(cls, ident, label=name))
        if ty.startswith('tuple:'):
            parts = ty[6:].split(',')
            return tuple(self.make_typed(p, '%s.%d' % (name, k), args)
                         for k, p in enumerate(parts))
        if ty.startswith('seq:'):
            ety = ty[4:]
            ln = SV(self.uf(name + '.len', *(sorts + [Z]))(*args), 'int')
            self.assume(r_cmp('>=', ln, 0))

            def at(i, ety=ety, name=name, args=args):
                return self.make_typed(ety, name + '.at', list(args) + [term(i)])
            return SList([('seq', SSeq(ln, at, name))])
        if ty.startswith('arr1:'):
            return self._field_array(name, args, 1, ty[5:])
        if ty.startswith('arr2:'):
            return self._field_array(name, args, 2, ty[5:])
        if ty.startswith('set:'):
            f = self.uf(name + '.has', *(sorts + [Z, z3.BoolSort()]))
            return SSet(lambda k, f=f, args=args: f(*(list(args) + [k])), name)
        if ty.startswith('dict:'):
            vty = ty[5:]
            f = self.uf(name + '.has', *(sorts + [Z, z3.BoolSort()]))
            d = SDict(lambda k, f=f, args=args: f(*(list(args) + [k])),
                      lambda k, vty=vty, name=name, args=args:
                      self.make_typed(vty, name + '.get', list(args) + [k]), name)
            d.vty = vty
            return d
        if ty == 'str':
            return AStr([('str', SV(self.uf(name, *(sorts + [Z]))(*args), 'int'))])
        raise EngineError('unknown schema type %r' % ty)

    def _field_array(self, name, args, rank, kind):
        Z = z3.IntSort()
        n0 = len(args)
        length = None
        if rank == 1:
            length = SV(self.uf(name + '.len', *([Z] * n0 + [Z]))(*args), 'int')
            self.assume(r_cmp('>=', length, 0))

        def mk(nm, srt):
            f = self.uf(nm, *([Z] * (n0 + rank) + [srt]))
            return lambda idx, f=f: f(*(list(args) + [term(i) for i in idx]))
        if kind == 'complex':
            gre, gim = mk(name + '.re', z3.RealSort()), mk(name + '.im', z3.RealSort())
            return SArr(lambda idx: CX(SV(gre(idx), 'real'), SV(gim(idx), 'real')),
                        rank, kind, name, length)
        srt = {'real': z3.RealSort(), 'int': Z, 'bool': z3.BoolSort()}[kind]
        g = mk(name, srt)
        return SArr(lambda idx, g=g, kind=kind: SV(g(idx), kind), rank, kind, name, length)

    def use_field_map(self, cls, field, ty=None):
        ty = ty or self.field_type(cls, field)
        fm = FMap(self, cls, field, ty)
        self.fmaps[(cls, field)] = fm
        return fm

    def fmap_of(self, cls, field):
        if not self.fmaps:
            return None
        for c in self.repo.mro(cls) or [cls]:
            if (c, field) in self.fmaps:
                return (c, field)
        return None

    def getfield(self, obj, field, node=None):
        fk = self.fmap_of(obj.cls, field)
        if fk is not None:
            return self.fmaps[fk].read(obj.ident)
        if field in obj.fields:
            return obj.fields[field]
        ty = self.field_type(obj.cls, field)
        if ty is None:
            raise EngineError('read of field %s.%s not in schema' % (obj.cls, field))
        v = self.make_typed(ty, '%s.%s' % (self._schema_owner(obj.cls, field), field),
                            [obj.ident])
        obj.fields[field] = v
        return v

    def _schema_owner(self, cls, field):
        for c in self.repo.mro(cls) or [cls]:
            if (c, field) in self.schema:
                return c
        return cls

    def setfield(self, obj, field, value):
        fk = self.fmap_of(obj.cls, field)
        if fk is not None:
            self.note_write(('fmap', self.fmaps[fk]))
            self.fmaps[fk].writes.append((obj.ident, value))
            return
        self.note_write(('attr', obj, field))
        obj.fields[field] = value

    # ---------------------------------------------------------- writes tracking
    def note_write(self, loc):
        for fr in self.frames:
            fr.setdefault('writes', []).append(loc)

    # ---------------------------------------------------------- truthiness
    def truth(self, v):
        """bool-like truth value of v."""
        if v is None:
            return False
        if isinstance(v, bool):
            return v
        if isinstance(v, (int, Fraction)):
            return v != 0
        if isinstance(v, SV):
            if v.kind == 'bool':
                return v
            return SV(v.t != 0, 'bool')
        if isinstance(v, CX):
            return b_or(self.truth(v.re), self.truth(v.im))
        if isinstance(v, Opt):
            return b_and(SV(z3.Not(v.isnone), 'bool'), self.truth(v.val))
        if isinstance(v, OptObj):
            return SV(v.obj.ident != 0, 'bool')
        if isinstance(v, (list, tuple, dict, set, str)):
            return len(v) > 0
        if isinstance(v, SList):
            return r_cmp('>', v.length(), 0)
        if isinstance(v, SSeq):
            return r_cmp('>', v.length, 0)
        if isinstance(v, AStr):
            if v.is_lit():
                return len(v.lit()) > 0
            if len(v.toks) == 1 and v.toks[0][0] == 'fld':
                return v.toks[0][2] != 'empty'
            if any(t[0] in ('fld', 'conv', 'ff') and not (t[0] == 'fld' and t[2] == 'empty') for t in v.toks):
                return True
            raise EngineError('truth of abstract string')
        if isinstance(v, SObj):
            fn, c = self.repo.find_method(v.cls, '__bool__')
            if fn is not None:
                return self.truth(self.call_user(FuncRef(fn, c + '.__bool__', self.repo.classes[c].module, c),
                                                 [v], {}))
            fn, c = self.repo.find_method(v.cls, '__len__')
            if fn is not None:
                ln = self.call_user(FuncRef(fn, c + '.__len__', self.repo.classes[c].module, c), [v], {})
                return r_cmp('!=', ln, 0)
            return True
        if isinstance(v, SSet):
            if v.base is None:
                return len(v.adds) > 0
            if v.adds:
                return True
            # non-emptiness of a symbolic set: fork, with a witness / a universal fact
            b = fresh_bool('nonempty')
            if self.decide(b):
                w = z3.Int(fresh_name('witness'))
                self.pc.append(self.set_has(v, w))
                return True
            t = z3.Int(fresh_name('t'))
            self.pc.append(z3.ForAll([t], z3.Not(self.set_has(v, t))))
            return False
        if isinstance(v, (FuncRef, BoundMethod, Builtin, ClassRef, Closure)):
            return True
        if isinstance(v, NDArr):
            raise EngineError('truth value of an array is ambiguous')
        raise EngineError('truth of %r' % (v,))

    def test(self, v):
        return self.decide(self.truth(v))

    # ---------------------------------------------------------- function execution
    def get_fnode(self, qual):
        if qual in self.fn_override:
            return self.fn_override[qual]
        return self.repo.func(qual)

    def fref(self, qual):
        parts = qual.split('.')
        node = self.get_fnode(qual)
        if len(parts) == 1:
            return FuncRef(node, qual, self.repo.functions[parts[0]][1])
        return FuncRef(node, qual, self.repo.classes[parts[0]].module, parts[0])

    def call_qual(self, qual, args, kwargs=None):
        """execute the real function `qual` (its body, not its summary)."""
        return self.exec_function(self.fref(qual), list(args), dict(kwargs or {}))

    def exec_function(self, fref, args, kwargs):
        node = fref.node
        if fref.qual in self.fn_override:
            node = self.fn_override[fref.qual]
        env = self.bind_args(node, args, kwargs, fref)
        is_gen = any(isinstance(n, (ast.Yield, ast.YieldFrom)) for n in ast.walk(node)
                     if not isinstance(n, ast.Lambda))
        frame = {'fref': fref, 'env': env, 'qual': fref.qual, 'node': node}
        self.frames.append(frame)
        if is_gen:
            self.yield_stack.append(SList())
        try:
            try:
                self.exec_block(node.body, env)
                ret = None
            except _Return as r:
                ret = r.value
        finally:
            self.frames.pop()
            if is_gen:
                ys = self.yield_stack.pop()
        if is_gen:
            return ys
        return ret

    def bind_args(self, node, args, kwargs, fref=None):
        a = node.args
        env = {}
        params = [p.arg for p in a.posonlyargs + a.args]
        defaults = a.defaults
        nd = len(defaults)
        args = list(args)
        kwargs = dict(kwargs)
        for i, p in enumerate(params):
            if i < len(args):
                env[p] = args[i]
            elif p in kwargs:
                env[p] = kwargs.pop(p)
            else:
                di = i - (len(params) - nd)
                if di < 0:
                    raise PyRaise('TypeError', ('missing argument %s' % p,))
                env[p] = self.eval_const_default(defaults[di], fref)
        if len(args) > len(params):
            if a.vararg:
                env[a.vararg.arg] = tuple(args[len(params):])
            else:
                raise PyRaise('TypeError', ('too many positional arguments',))
        elif a.vararg:
            env[a.vararg.arg] = ()
        for p, d in zip(a.kwonlyargs, a.kw_defaults):
            if p.arg in kwargs:
                env[p.arg] = kwargs.pop(p.arg)
            else:
                env[p.arg] = self.eval_const_default(d, fref)
        if a.kwarg:
            env[a.kwarg.arg] = kwargs
        elif kwargs:
            raise PyRaise('TypeError', ('unexpected keyword %s' % list(kwargs),))
        return env

    def eval_const_default(self, d, fref):
        return self.eval(d, {})

    # ---------------------------------------------------------- statements
    def exec_block(self, stmts, env):
        for st in stmts:
            self.exec_stmt(st, env)

    def exec_stmt(self, st, env):
        hook = getattr(self, 'stmt_hook', None)
        if hook is not None:
            # a unit may state a precondition on an intermediate value at the statement that consumes it (used to say
            # "the boundary lies beyond the reflection distance the code has just computed")
            hook(self, st, env)
        m = getattr(self, 'st_' + st.__class__.__name__, None)
        if m is None:
            raise EngineError('statement %s outside the subset (line %s)'
                              % (st.__class__.__name__, getattr(st, 'lineno', '?')))
        return m(st, env)

    def st_Pass(self, st, env):
        pass

    def st_Expr(self, st, env):
        if isinstance(st.value, ast.Constant):
            return
        self.eval(st.value, env)

    def st_Return(self, st, env):
        raise _Return(self.eval(st.value, env) if st.value is not None else None)

    def st_Break(self, st, env):
        raise _Break()

    def st_Continue(self, st, env):
        raise _Continue()

    def st_Assign(self, st, env):
        v = self.eval(st.value, env)
        for t in st.targets:
            self.assign(t, v, env)

    def st_AnnAssign(self, st, env):
        if st.value is not None:
            self.assign(st.target, self.eval(st.value, env), env)

    def st_AugAssign(self, st, env):
        t = st.target
        if isinstance(t, ast.Name):
            cur = self.load_name(t.id, env)
            v = self.binop(st.op, cur, self.eval(st.value, env), inplace=True)
            self.assign(t, v, env)
        elif isinstance(t, ast.Attribute):
            obj = self.eval(t.value, env)
            cur = self.getattr(obj, t.attr)
            v = self.binop(st.op, cur, self.eval(st.value, env), inplace=True)
            self.setattr(obj, t.attr, v)
        elif isinstance(t, ast.Subscript):
            base, idx = self.subscript_store_target(t, env)
            cur = self.getitem(base, idx)
            v = self.binop(st.op, cur, self.eval(st.value, env), inplace=True)
            self.setitem(base, idx, v)
        else:
            raise EngineError('augmented assignment target')

    def subscript_store_target(self, t, env):
        """(base, index) of a subscript store.  `a [i][j] = v` on a small dense array: numpy's `a [i]` is a VIEW, so the store goes
        into `a` itself -- modelled as the store `a [i, j] = v` (basic integer / slice indices only)."""
        chain = []
        node = t
        while isinstance(node, ast.Subscript):
            chain.append(node)
            node = node.value
        if len(chain) >= 2:
            root = self.eval(node, env)
            if isinstance(root, NDArr):
                idxs = [self.eval_index(c.slice, env) for c in reversed(chain)]
                flat_idx = []
                ok = True
                for ix in idxs:
                    for part in (ix if isinstance(ix, tuple) else (ix,)):
                        if isinstance(part, (int, slice)) or (isinstance(part, SV) and part.kind == 'int'):
                            flat_idx.append(part)
                        else:
                            ok = False
                # only chains of plain integer indices (each consumes one axis) are views we can fold into one index tuple
                if ok and all(not isinstance(p_, slice) for p_ in flat_idx[:-1]):
                    return root, tuple(flat_idx)
        return self.eval(t.value, env), self.eval_index(t.slice, env)

    def assign(self, t, v, env):
        if isinstance(t, ast.Name):
            env[t.id] = v
            self.note_write(('local', t.id))
        elif isinstance(t, (ast.Tuple, ast.List)):
            stars = [k for k, tt in enumerate(t.elts) if isinstance(tt, ast.Starred)]
            if stars:
                # a, *rest, z = seq
                if len(stars) > 1:
                    raise EngineError('two starred targets')
                items = self.concrete_items(v)
                if items is None:
                    raise EngineError('starred unpacking of a symbolic sequence')
                k = stars[0]
                after = len(t.elts) - k - 1
                if len(items) < len(t.elts) - 1:
                    raise PyRaise('ValueError', ('not enough values to unpack',))
                for tt, vv in zip(t.elts[:k], items[:k]):
                    self.assign(tt, vv, env)
                mid = items[k:len(items) - after]
                self.assign(t.elts[k].value, SList([('conc', list(mid))]), env)
                for tt, vv in zip(t.elts[k + 1:], items[len(items) - after:] if after else []):
                    self.assign(tt, vv, env)
                return
            vals = self.unpack(v, len(t.elts))
            for tt, vv in zip(t.elts, vals):
                self.assign(tt, vv, env)
        elif isinstance(t, ast.Attribute):
            obj = self.eval(t.value, env)
            self.setattr(obj, t.attr, v)
        elif isinstance(t, ast.Subscript):
            base, idx = self.subscript_store_target(t, env)
            self.setitem(base, idx, v)
        else:
            raise EngineError('assignment target %s' % t.__class__.__name__)

    def unpack(self, v, n):
        if isinstance(v, (tuple, list)):
            if len(v) != n:
                raise PyRaise('ValueError', ('unpack',))
            return list(v)
        if isinstance(v, NDArr):
            if len(v.data) != n:
                raise PyRaise('ValueError', ('unpack',))
            return [NDArr(x) if isinstance(x, list) else x for x in v.data]
        if isinstance(v, SList) and v.is_concrete():
            return self.unpack(v.concrete(), n)
        raise EngineError('cannot unpack %r' % (v,))

    def st_If(self, st, env):
        if self.test(self.eval(st.test, env)):
            self.exec_block(st.body, env)
        else:
            self.exec_block(st.orelse, env)

    def st_Assert(self, st, env):
        if not self.test(self.eval(st.test, env)):
            raise PyRaise('AssertionError', (), st)

    def st_Raise(self, st, env):
        if st.exc is None:
            raise EngineError('bare raise')
        e = st.exc
        if isinstance(e, ast.Call):
            cname = ast.unparse(e.func)
            args = [self.eval(a, env) for a in e.args]
        else:
            cname = ast.unparse(e)
            args = []
        raise PyRaise(cname.split('.')[-1], tuple(args), st)

    def st_Try(self, st, env):
        try:
            try:
                self.exec_block(st.body, env)
            except PyRaise as ex:
                for h in st.handlers:
                    if self.handler_matches(h, ex):
                        if h.name:
                            env[h.name] = AStr([('lit', '<%s>' % ex.cls)])
                        self.exec_block(h.body, env)
                        break
                else:
                    raise
            else:
                self.exec_block(st.orelse, env)
        finally:
            if st.finalbody:
                self.exec_block(st.finalbody, env)

    def handler_matches(self, h, ex):
        if h.type is None:
            return True
        names = []
        if isinstance(h.type, ast.Tuple):
            names = [ast.unparse(e).split('.')[-1] for e in h.type.elts]
        else:
            names = [ast.unparse(h.type).split('.')[-1]]
        return any(exc_isinstance(ex.cls, n) for n in names)

    def st_While(self, st, env):
        raise EngineError('while loop outside the subset (line %d)' % st.lineno)

    def st_With(self, st, env):
        raise EngineError('with statement outside the subset')

    def st_FunctionDef(self, st, env):
        # a local helper function: a closure over the enclosing variables (read-only; looked up when it is called)
        for x in ast.walk(st):
            if isinstance(x, (ast.Nonlocal, ast.Global, ast.Yield, ast.YieldFrom)):
                raise EngineError('nested function with nonlocal/global/yield outside the subset')
        env[st.name] = NestedFunc(st, env, self.frames[-1] if self.frames else None)

    def st_Delete(self, st, env):
        raise EngineError('del outside the subset')

    def st_Global(self, st, env):
        pass

    # ---- for loops
    def iterable(self, it):
        if isinstance(it, OptObj):
            it = it.obj
        if isinstance(it, SDict):
            if getattr(it, 'keys_seq', None) is None:
                raise EngineError('iteration over a dictionary without a key sequence model')
            return it.keys_seq
        if isinstance(it, SObj):
            fn, c = self.repo.find_method(it.cls, '__iter__')
            if fn is None:
                raise PyRaise('TypeError', ('object is not iterable',))
            q = c + '.__iter__'
            return self.call_user(FuncRef(self.fn_override.get(q, fn), q,
                                          self.repo.classes[c].module, c), [it], {})
        return it

    def st_For(self, st, env):
        it = self.iterable(self.eval(st.iter, env))
        items = self.concrete_items(it)
        if items is not None:
            broke = False
            for x in items:
                self.assign(st.target, x, env)
                try:
                    self.exec_block(st.body, env)
                except _Continue:
                    continue
                except _Break:
                    broke = True
                    break
            if not broke:
                self.exec_block(st.orelse, env)
            return
        self.symbolic_for(st, env, it)

    def concrete_items(self, it):
        if isinstance(it, (SObj, OptObj)):
            it = self.iterable(it)          # the object's own __iter__ (contract or body)
        if isinstance(it, (list, tuple)):
            return list(it)
        if isinstance(it, range):
            return list(it)
        if isinstance(it, SList) and it.is_concrete():
            return it.concrete()
        if isinstance(it, NDArr):
            return [NDArr(x) if isinstance(x, list) else x for x in it.data]
        if isinstance(it, dict):
            return list(it.keys())
        if isinstance(it, AStr) and it.is_lit():
            return [AStr([('lit', ch)]) for ch in it.lit()]
        if isinstance(it, SSet):
            # iteration order of a set is arbitrary in Python; insertion order is used here.  Order-dependence of
            # report/option writers on set iteration is the subject of C14/determinism, not of this engine.
            return self.set_members(it)
        return None

    def loop_key(self, st):
        fr = self.frames[-1] if self.frames else None
        if fr is None:
            return None
        loops = loops_of(fr['node'])
        for k, l in enumerate(loops):
            if l is st:
                return (fr['qual'], k)
        return (fr['qual'], 'line%d' % st.lineno)

    def as_seq(self, it):
        """symbolic iterable -> (SSeq, transform) where transform maps an element."""
        if isinstance(it, SSeq):
            return it
        if isinstance(it, SArr) and it.rank == 1 and it.length is not None:
            arr = it.copy()
            return SSeq(it.length, lambda i, arr=arr: arr.read((i,)), 'array(%s)' % it.label)
        if isinstance(it, SList):
            if len(it.chunks) == 1 and it.chunks[0][0] == 'seq':
                return it.chunks[0][1]
            if len(it.chunks) == 1 and it.chunks[0][0] == 'opaque':
                raise EngineError('iteration over opaque list %s' % it.chunks[0][1])
            raise EngineError('iteration over mixed list %r' % it)
        raise EngineError('iteration over %r' % (it,))

    def prefix_value(self, init_v, name, key, i):
        """Spec(prefix i) for one carried location, typed like its initial value."""
        Z = z3.IntSort()
        args = list(key) + [term(i)]
        sorts = [Z] * len(args)
        if isinstance(init_v, CX):
            return CX(SV(self.uf(name + '.re', *(sorts + [z3.RealSort()]))(*args), 'real'),
                      SV(self.uf(name + '.im', *(sorts + [z3.RealSort()]))(*args), 'real'))
        if isinstance(init_v, bool) or (isinstance(init_v, SV) and init_v.kind == 'bool'):
            return SV(self.uf(name, *(sorts + [z3.BoolSort()]))(*args), 'bool')
        if isinstance(init_v, int) or (isinstance(init_v, SV) and init_v.kind == 'int'):
            return SV(self.uf(name, *(sorts + [Z]))(*args), 'int')
        if isinstance(init_v, Fraction) or (isinstance(init_v, SV) and init_v.kind == 'real'):
            return SV(self.uf(name, *(sorts + [z3.RealSort()]))(*args), 'real')
        if isinstance(init_v, SList):
            ln = SV(self.uf(name + '.len', *(sorts + [Z]))(*args), 'int')
            self.assume(r_cmp('>=', ln, 0))
            tag = '%s@%s' % (name, ','.join(str(z3.simplify(a)).replace('\n', '').replace(' ', '') for a in args))
            return SList(init_v.copy().chunks + [('opaque', tag, ln)])
        if isinstance(init_v, SArr):
            a = self.sym_array('%s@%s' % (name, ','.join(str(z3.simplify(a)).replace('\n', '').replace(' ', '') for a in args)),
                               init_v.rank, init_v.kind, init_v.length)
            return a
        if isinstance(init_v, Opt) or init_v is None:
            return Opt(self.uf(name + '.isnone', *(sorts + [z3.BoolSort()]))(*args),
                       SV(self.uf(name + '.val', *(sorts + [Z]))(*args), 'int'))
        if isinstance(init_v, SSet):
            f = self.uf(name + '.has', *(sorts + [Z, z3.BoolSort()]))
            return SSet(lambda k, f=f, args=args: f(*(args + [k])), name)
        if isinstance(init_v, NDArr):
            cnt = [0]

            def mk(x):
                cnt[0] += 1
                return self.prefix_value(x, '%s.e%d' % (name, cnt[0]), key, i)
            return NDArr(mapnd(mk, init_v.data))
        if isinstance(init_v, FMap):
            return FMap(self, init_v.cls, init_v.field, init_v.ty,
                        '%s@%s' % (name, ','.join(str(z3.simplify(a)).replace('\n', '').replace(' ', '') for a in args)))
        if isinstance(init_v, SDict):
            tag = '%s@%s' % (name, ','.join(str(z3.simplify(a)).replace('\n', '').replace(' ', '') for a in args))
            vty = getattr(init_v, 'vty', None)
            if vty is None:
                raise EngineError('prefix value of a dict without value type (%s)' % name)
            f = self.uf(tag + '.has', Z, z3.BoolSort())
            d = SDict(lambda k, f=f: f(k),
                      lambda k, vty=vty, tag=tag: self.make_typed(vty, tag + '.get', [k]), tag)
            d.vty = vty
            return d
        raise EngineError('cannot build a prefix value for %r (%s)' % (init_v, name))

    def symbolic_for(self, st, env, it):
        key = self.loop_key(st)
        spec = self.loop_specs.get(key)
        if spec is None:
            raise EngineError('loop %s over a symbolic sequence needs a LoopSpec (line %d: for ... in %s)'
                              % (key, st.lineno, ast.unparse(st.iter)))
        if getattr(spec, 'search', None) is not None:
            return self.search_for(st, env, it, spec)
        if st.orelse:
            raise EngineError('for-else over symbolic sequence')
        seq = self.as_seq(it)
        name = spec.name
        init = {loc: self.read_loc(loc, env) for loc in spec.carried}
        if getattr(spec, 'on_entry', None) is not None:
            spec.on_entry(self, init)
        skey = spec.key_fn(self, env) if getattr(spec, 'key_fn', None) is not None else spec.key
        extra = self.uncarried_locals(st, env, spec)
        if spec.inv is not None and self.choose(2) == 1:
            self.oblige('%s/invariant-holds-on-entry' % name, spec.inv(self, 0, init))
            raise PathEnd()
        if self.choose(2) == 0:
            # ---- the generic iteration: invariant preservation
            i = fresh_int('it')
            self.assume(b_and(r_cmp('>=', i, 0), r_cmp('<', i, seq.length)))
            first = self.decide(r_cmp('==', i, 0))
            before = {}
            for loc in spec.carried:
                if first:
                    v = self.snapshot(init[loc])
                else:
                    v = self.prefix_value(init[loc], '%s.%s' % (name, self.loc_name(loc)),
                                          skey, i)
                before[loc] = v
                self.write_loc(loc, v, env)
            elem = seq.at(i)
            for nm in extra:
                env[nm] = self.fresh_like(env[nm], 'havoc.' + nm)
            if spec.assume is not None:
                self.assume(spec.assume(self, i, elem))
            snap = {loc: self.snapshot(v) for loc, v in before.items()}
            if spec.inv is not None:
                self.assume(spec.inv(self, i, snap))
            self.assign(st.target, elem, env)
            frame = self.frames[-1]
            saved_writes = frame.get('writes')
            frame['writes'] = []
            stamp0 = _STAMP[0]
            outcome = 'normal'
            try:
                self.exec_block(st.body, env)
            except _Continue:
                pass
            except _Break:
                outcome = 'break'
            except PyRaise as ex:
                outcome = 'raise:' + ex.cls
            except _Return:
                outcome = 'return'
            if outcome != 'normal':
                if outcome in spec.exits and outcome.startswith('raise:'):
                    raise PyRaise(outcome[6:], ('in loop %s' % name,))
                if outcome.startswith('raise:'):
                    self.oblige('%s/no-abrupt-exit' % name, False, detail=outcome)
                    raise PathEnd()
                raise EngineError('abrupt loop exit (%s) not covered by the LoopSpec of %s'
                                  % (outcome, name))
            self.check_loop_frame(frame['writes'], spec, st, env, name, stamp0, before)
            if spec.inv is not None:
                got = {loc: self.read_loc(loc, env) for loc in spec.carried}
                self.oblige('%s/invariant-preserved' % name, spec.inv(self, r_add(i, 1), got))
            if spec.check is not None:
                got = {loc: self.read_loc(loc, env) for loc in spec.carried}
                spec.check(self, snap, elem, i, got)
                raise PathEnd()
            if spec.step is None:
                raise PathEnd()
            alts = spec.step(self, snap, elem, i)
            if isinstance(alts, dict):
                alts = [(True, alts)]
            for gi, (g, after) in enumerate(alts):
                if not isinstance(g, (SV, z3.ExprRef)) and not g:
                    continue
                for loc in spec.carried:
                    got = self.read_loc(loc, env)
                    eq = self.values_equal(got, after[loc])
                    f = z3.Implies(bterm(g), bterm(eq))
                    self.oblige('%s/step/%s' % (name, self.loc_name(loc)), f)
            if not (len(alts) == 1 and alts[0][0] is True):
                self.oblige('%s/step/guards-exhaustive' % name,
                            z3.Or([bterm(g) for g, _ in alts]))
            raise PathEnd()
        # ---- continue after the loop with Spec(len) (= init when the sequence is empty)
        if spec.result is not None:
            res = spec.result(self, init, seq)
        else:
            res = {}
            empty = self.decide(r_cmp('==', seq.length, 0))
            for loc in spec.carried:
                if empty:
                    res[loc] = init[loc]
                else:
                    res[loc] = self.prefix_value(init[loc], '%s.%s' % (name, self.loc_name(loc)),
                                                 skey, seq.length)
        # temporaries of the body that the code after the loop reads before assigning them again hold the values of the LAST
        # iteration (Python semantics): the body is executed once more for the last element, from the specified state before
        # it, only to bind them; the carried locations are then set to Spec(len) as always
        live = self.live_out_temps(st, spec)
        kept = {}
        if live and not self.decide(r_cmp('==', seq.length, 0)):
            last = r_sub(seq.length, 1)
            one = self.decide(r_cmp('==', seq.length, 1))
            before = {}
            if spec.result is not None and not one:
                # a specification with its own result function: the state before the last iteration is its result for
                # the prefix of length len - 1
                import types
                pre = spec.result(self, init, types.SimpleNamespace(length=last, at=seq.at, label=getattr(seq, 'label', '')))
            for loc in spec.carried:
                if one:
                    v = self.snapshot(init[loc])
                elif spec.result is not None:
                    v = pre[loc]
                else:
                    v = self.prefix_value(init[loc], '%s.%s' % (name, self.loc_name(loc)), skey, last)
                before[loc] = v
                self.write_loc(loc, v, env)
            elem = seq.at(last)
            if spec.assume is not None:
                self.assume(spec.assume(self, last, elem))
            if spec.inv is not None:
                self.assume(spec.inv(self, last, {loc: self.snapshot(v) for loc, v in before.items()}))
            self.assign(st.target, elem, env)
            try:
                self.exec_block(st.body, env)
            except _Continue:
                pass
            except (_Break, _Return, PyRaise):
                # this continuation is "the loop ran to completion": a last iteration that leaves abruptly contradicts it
                # (the abrupt exits themselves are followed from the generic iteration)
                raise PathEnd()
            kept = {nm: env[nm] for nm in live if nm in env}
            self.notes.append('loop %s: %s read after the loop: bound to the values of the last iteration' % (name, sorted(kept)))
        for loc in spec.carried:
            self.write_loc(loc, res[loc], env)
        for nm in extra:
            # a local the body modifies without being part of the loop's specification:
            # nothing is known about it after the loop (sound over-approximation)
            env[nm] = self.fresh_like(env[nm], 'havoc.' + nm)
            self.notes.append('loop %s: local %r is modified by the body but not specified; havocked' % (name, nm))
        if spec.inv is not None:
            self.assume(spec.inv(self, seq.length, res))
        # temporaries assigned in the body are unknown after the loop
        for n in ast.walk(ast.Module(body=st.body, type_ignores=[])):
            if isinstance(n, ast.Name) and isinstance(n.ctx, ast.Store):
                if ('local', n.id) not in spec.carried:
                    env.pop(n.id, None)
        for n in ast.walk(st.target):
            if isinstance(n, ast.Name):
                env.pop(n.id, None)
        env.update(kept)

    def live_out_temps(self, st, spec):
        """names assigned in the body of loop `st` (not carried by its specification) that a statement after the loop, in the
        same block, reads before assigning them again (a linear scan: loads anywhere inside a following statement count while
        the name has not been re-assigned by a plain top-level assignment)"""
        temps = set(n.id for n in ast.walk(ast.Module(body=st.body, type_ignores=[]))
                    if isinstance(n, ast.Name) and isinstance(n.ctx, ast.Store) and ('local', n.id) not in spec.carried)
        temps |= set(n.id for n in ast.walk(st.target) if isinstance(n, ast.Name))
        if not temps:
            return []
        fn = self.frames[-1].get('node') if self.frames else None
        if fn is None:
            return []
        block = None
        for parent in ast.walk(fn):
            for fld in ('body', 'orelse', 'finalbody'):
                b = getattr(parent, fld, None)
                if isinstance(b, list) and st in b:
                    block = b
        if block is None:
            return []
        live = set()
        pending = set(temps)

        def inner_bound(node):
            # names bound by nested scopes of this statement (lambda parameters, comprehension targets): a load of such
            # a name inside the statement is not a read of the loop's temporary
            out = set()
            for x in ast.walk(node):
                if isinstance(x, ast.Lambda):
                    out |= set(a.arg for a in x.args.args + x.args.kwonlyargs)
                elif isinstance(x, ast.comprehension):
                    out |= set(n.id for n in ast.walk(x.target) if isinstance(n, ast.Name))
            return out
        for nxt in block[block.index(st) + 1:]:
            if isinstance(nxt, ast.Assign):
                loads = [n for n in ast.walk(nxt.value) if isinstance(n, ast.Name)]
                for t in nxt.targets:
                    loads += [n for n in ast.walk(t) if isinstance(n, ast.Name) and isinstance(n.ctx, ast.Load)]
            elif isinstance(nxt, ast.For):
                # the loop target is assigned before the body reads it
                own = set(n.id for n in ast.walk(nxt.target) if isinstance(n, ast.Name))
                loads = [n for n in ast.walk(nxt.iter) if isinstance(n, ast.Name)]
                for b in nxt.body + nxt.orelse:
                    loads += [n for n in ast.walk(b) if isinstance(n, ast.Name) and isinstance(n.ctx, ast.Load) and n.id not in own]
            else:
                loads = [n for n in ast.walk(nxt) if isinstance(n, ast.Name) and isinstance(n.ctx, ast.Load)]
                loads += [n for n in ast.walk(nxt) if isinstance(n, ast.Name) and isinstance(n.ctx, ast.Store)
                          and isinstance(nxt, ast.AugAssign) and n is nxt.target]
            shadow = inner_bound(nxt)
            for n in loads:
                if n.id in pending and n.id not in shadow:
                    live.add(n.id)
            if isinstance(nxt, ast.Assign):
                for t in nxt.targets:
                    for n in ([t] if isinstance(t, ast.Name) else (t.elts if isinstance(t, (ast.Tuple, ast.List)) else [])):
                        if isinstance(n, ast.Name):
                            pending.discard(n.id)
            if not pending:
                break
        return sorted(live)

    def search_for(self, st, env, it, spec):
        """`for x in seq: ... if cond(x): <effects>; break` [else: ...] over an unbounded sequence.
        spec.search(eng, elem) -> bool-like is the specification's break condition.  Proved for a
        generic element: the body breaks iff search(elem), and an iteration that does not break
        writes nothing that outlives it.  Then two continuations: (found) the first index i with
        search(seq[i]) -- the body is executed for that element; (not found) no element satisfies
        it -- the else block runs."""
        seq = self.as_seq(it)
        name = spec.name
        mode = self.choose(3)
        if mode == 0:
            i = fresh_int('it')
            self.assume(b_and(r_cmp('>=', i, 0), r_cmp('<', i, seq.length)))
            elem = seq.at(i)
            want = spec.search(self, elem)
            self.assign(st.target, elem, env)
            frame = self.frames[-1]
            frame['writes'] = []
            stamp0 = _STAMP[0]
            broke = False
            try:
                self.exec_block(st.body, env)
            except _Continue:
                pass
            except _Break:
                broke = True
            self.oblige('%s/breaks-exactly-when-the-element-matches' % name,
                        bterm(want) if broke else z3.Not(bterm(want)))
            if not broke:
                body_locals = set(n.id for n in ast.walk(ast.Module(body=st.body, type_ignores=[]))
                                  if isinstance(n, ast.Name) and isinstance(n.ctx, ast.Store))
                body_locals |= set(n.id for n in ast.walk(st.target) if isinstance(n, ast.Name))
                leaks = [w for w in frame['writes']
                         if not (w[0] == 'local' and w[1] in body_locals)
                         and not (w[0] != 'local' and w[0] != 'yield' and getattr(w[1], 'stamp', 0) > stamp0)]
                self.oblige('%s/non-matching-iterations-have-no-effect' % name, not leaks,
                            detail=str([w[0] for w in leaks]))
            raise PathEnd()
        if mode == 1:
            # found: first matching index
            i = fresh_int('first')
            self.assume(b_and(r_cmp('>=', i, 0), r_cmp('<', i, seq.length)))
            elem = seq.at(i)
            self.assume(spec.search(self, elem))
            j = z3.Int(fresh_name('j'))
            prev = spec.search(self, seq.at(SV(j, 'int')))
            self.assume(SV(z3.ForAll([j], z3.Implies(z3.And(j >= 0, j < term(i)), z3.Not(bterm(prev)))), 'bool'))
            self.assign(st.target, elem, env)
            if getattr(spec, 'on_found', None) is not None:
                spec.on_found(self, elem, i)
            try:
                self.exec_block(st.body, env)
            except _Break:
                return
            raise EngineError('search loop %s: matching element did not break' % name)
        # not found
        j = z3.Int(fresh_name('j'))
        anyel = spec.search(self, seq.at(SV(j, 'int')))
        self.assume(SV(z3.ForAll([j], z3.Implies(z3.And(j >= 0, j < term(seq.length)), z3.Not(bterm(anyel)))), 'bool'))
        if getattr(spec, 'on_not_found', None) is not None:
            spec.on_not_found(self)
        for n in ast.walk(st.target):
            if isinstance(n, ast.Name):
                env.pop(n.id, None)
        self.exec_block(st.orelse, env)

    MUTATORS = ('append', 'add', 'extend', 'update', 'pop', 'sort', 'insert', 'remove', 'clear')

    def uncarried_locals(self, st, env, spec):
        names = set()
        for n in ast.walk(ast.Module(body=st.body, type_ignores=[])):
            if isinstance(n, ast.Name) and isinstance(n.ctx, ast.Store):
                names.add(n.id)
            elif isinstance(n, ast.Call) and isinstance(n.func, ast.Attribute) \
                    and isinstance(n.func.value, ast.Name) and n.func.attr in self.MUTATORS:
                names.add(n.func.value.id)
            elif isinstance(n, ast.Subscript) and isinstance(n.ctx, ast.Store) \
                    and isinstance(n.value, ast.Name):
                names.add(n.value.id)
        for n in ast.walk(st.target):
            if isinstance(n, ast.Name):
                names.discard(n.id)
        out = []
        for nm in sorted(names):
            if nm in env and ('local', nm) not in spec.carried:
                v = env[nm]
                if isinstance(v, (SList, SSet, SDict, SArr, CX, SV, int, Fraction, bool, Opt)) or v is None:
                    out.append(nm)
        self._extra_locals = set(out)
        return out

    def check_loop_frame(self, writes, spec, st, env, name, stamp0, before):
        """frame condition of the loop rule: everything the body writes that
        existed before the body started must be a carried location."""
        body_locals = set()
        for n in ast.walk(ast.Module(body=st.body, type_ignores=[])):
            if isinstance(n, ast.Name) and isinstance(n.ctx, ast.Store):
                body_locals.add(n.id)
        for n in ast.walk(st.target):
            if isinstance(n, ast.Name):
                body_locals.add(n.id)
        carried_vals = [v for v in before.values()]
        for w in writes:
            if w[0] == 'local':
                if ('local', w[1]) in spec.carried or w[1] in body_locals:
                    continue
                if w[1] in getattr(self, '_extra_locals', ()):
                    continue
            elif w[0] == 'yield':
                if ('yield',) in spec.carried:
                    continue
            elif w[0] == 'fmap':
                if any(v is w[1] for v in carried_vals):
                    continue
            elif w[0] == 'attr':
                if w[1].stamp > stamp0:
                    continue
                if any(l[0] == 'attr' and l[1] is w[1] and l[2] == w[2] for l in spec.carried):
                    continue
            else:
                if w[1].stamp > stamp0 or any(v is w[1] for v in carried_vals):
                    continue
                if any(env.get(nm) is w[1] for nm in getattr(self, '_extra_locals', ())):
                    continue
            raise EngineError('loop %s writes %r which its LoopSpec does not carry' % (name, w[:1] + w[2:] if w[0] == 'attr' else w[0]))

    def loc_name(self, loc):
        if loc[0] == 'local':
            return loc[1]
        if loc[0] == 'attr':
            return '%s.%s' % (loc[1].label, loc[2])
        if loc[0] == 'fmap':
            return 'heap[%s.%s]' % (loc[1], loc[2])
        return str(loc[0])

    def read_loc(self, loc, env):
        if loc[0] == 'local':
            return env[loc[1]]
        if loc[0] == 'attr':
            return self.getfield(loc[1], loc[2])
        if loc[0] == 'yield':
            return self.yield_stack[-1]
        if loc[0] == 'fmap':
            return self.fmaps[(loc[1], loc[2])]
        raise EngineError('location %r' % (loc,))

    def write_loc(self, loc, v, env):
        if loc[0] == 'local':
            env[loc[1]] = v
        elif loc[0] == 'attr':
            loc[1].fields[loc[2]] = v
        elif loc[0] == 'yield':
            self.yield_stack[-1] = v
        elif loc[0] == 'fmap':
            self.fmaps[(loc[1], loc[2])] = v
        else:
            raise EngineError('location %r' % (loc,))

    def snapshot(self, v):
        if isinstance(v, (SList, SArr, SSet, SDict, FMap)):
            return v.copy()
        return v

    # ---------------------------------------------------------- equality
    def values_equal(self, a, b):
        """bool-like: a and b denote the same value."""
        if a is None or b is None:
            if a is None and b is None:
                return True
            o = a if b is None else b
            if isinstance(o, Opt):
                return SV(o.isnone, 'bool')
            if isinstance(o, OptObj):
                return SV(o.obj.ident == 0, 'bool')
            return False
        if isinstance(a, Opt) or isinstance(b, Opt):
            a, b = to_opt(a), to_opt(b)
            return b_or(b_and(SV(a.isnone, 'bool'), SV(b.isnone, 'bool')),
                        b_and(SV(z3.Not(a.isnone), 'bool'), SV(z3.Not(b.isnone), 'bool'),
                              num_eq(a.val, b.val)))
        if is_num(a) and is_num(b):
            return num_eq(a, b)
        if isinstance(a, OptObj):
            a = a.obj
        if isinstance(b, OptObj):
            b = b.obj
        if isinstance(a, SObj) and isinstance(b, SObj):
            if a is b:
                return True
            return SV(a.ident == b.ident, 'bool')
        if isinstance(a, (tuple, list)) and isinstance(b, (tuple, list)):
            if len(a) != len(b):
                return False
            return b_and(*[self.values_equal(x, y) for x, y in zip(a, b)]) if a else True
        if isinstance(a, NDArr) and isinstance(b, NDArr):
            if a.shape != b.shape:
                return False
            return b_and(*[self.values_equal(x, y) for x, y in zip(flat(a.data), flat(b.data))])
        if isinstance(a, str):
            a = AStr([('lit', a)])
        if isinstance(b, str):
            b = AStr([('lit', b)])
        if isinstance(a, AStr) and isinstance(b, AStr):
            if len(a.toks) != len(b.toks):
                return False
            conds = []
            for x, y in zip(a.toks, b.toks):
                if x[0] != y[0]:
                    return False
                if x[0] == 'lit':
                    if x[1] != y[1]:
                        return False
                elif x[0] == 'conv':
                    if x[1] != y[1]:
                        return False
                    conds.append(self.values_equal(x[2], y[2]))
                elif x[0] == 'ff':
                    if x[2:] != y[2:]:
                        return False
                    conds.append(self.values_equal(x[1], y[1]))
                else:
                    conds.append(self.values_equal(x[1], y[1]))
            return b_and(*conds) if conds else True
        if isinstance(a, SList) and isinstance(b, SList):
            if a is not b and any(c[0] == 'opaque' and c[1].startswith('havoc.')
                                  for c in a.chunks + b.chunks):
                return fresh_bool('unknown-list-equality')
            return self.slist_equal(a, b)
        if isinstance(a, SList) and isinstance(b, list):
            return self.slist_equal(a, SList([('conc', list(b))]))
        if isinstance(a, list) and isinstance(b, SList):
            return self.slist_equal(SList([('conc', list(a))]), b)
        if isinstance(a, SArr) and isinstance(b, SArr):
            idx = tuple(fresh_int('k') for _ in range(a.rank))
            return self.values_equal(a.read(idx), b.read(idx))
        if isinstance(a, FMap) and isinstance(b, FMap):
            k = z3.Int(fresh_name('k'))
            return self.values_equal(a.read(k), b.read(k))
        if isinstance(a, SSet) and isinstance(b, SSet):
            k = z3.Int(fresh_name('k'))
            return SV(self.set_has(a, k) == self.set_has(b, k), 'bool')
        if isinstance(a, SDict) and isinstance(b, SDict):
            k = z3.Int(fresh_name('k'))
            ha, hb = self.dict_has(a, k), self.dict_has(b, k)
            return b_and(SV(ha == hb, 'bool'),
                         SV(z3.Implies(ha, bterm(self.values_equal(self.dict_get(a, k),
                                                                  self.dict_get(b, k)))), 'bool'))
        if isinstance(a, bool) and isinstance(b, bool):
            return a == b
        if type(a) is type(b) and isinstance(a, (ClassRef,)):
            return a.name == b.name
        raise EngineError('cannot compare %r with %r' % (a, b))

    def slist_equal(self, a, b):
        """structural: same chunk structure, equal concrete tails (skolemised
        comparison is only needed for opaque/seq chunks being the *same* chunk)."""
        ca = [c for c in a.chunks if not (c[0] == 'conc' and not c[1])]
        cb = [c for c in b.chunks if not (c[0] == 'conc' and not c[1])]
        if len(ca) != len(cb):
            return False
        conds = []
        for x, y in zip(ca, cb):
            if x[0] != y[0]:
                return False
            if x[0] == 'conc':
                if len(x[1]) != len(y[1]):
                    return False
                conds.extend(self.values_equal(p, q) for p, q in zip(x[1], y[1]))
            elif x[0] == 'opaque':
                if x[1] != y[1]:
                    return False
            else:
                if x[1] is not y[1]:
                    if getattr(x[1], 'spec_id', None) is None or \
                            getattr(x[1], 'spec_id', None) != getattr(y[1], 'spec_id', 1):
                        return False
        return b_and(*conds) if conds else True

    # ---------------------------------------------------------- containers
    def set_has(self, s, k):
        t = z3.BoolVal(False) if s.base is None else s.base(k)
        for a in s.adds:
            t = z3.Or(k == a, t)
        return t

    def dict_has(self, d, k):
        t = z3.BoolVal(False) if d.base_has is None else d.base_has(k)
        for wk, _ in d.writes:
            t = z3.Or(k == wk, t)
        return t

    def dict_get(self, d, k):
        """value for key term k (caller established membership)."""
        v = None
        if d.base_get is not None:
            v = d.base_get(k)
        for wk, wv in d.writes:
            if v is None:
                v = wv
            else:
                v = self.ite_value(SV(k == wk, 'bool'), wv, v)
        return v

    def ite_value(self, c, a, b):
        if not isinstance(c, (SV, z3.ExprRef)):
            return a if c else b
        cs = z3.simplify(bterm(c))
        if z3.is_true(cs):
            return a
        if z3.is_false(cs):
            return b
        if isinstance(a, SObj) and isinstance(b, SObj):
            if a is b:
                return a
            return SObj(a.cls if a.cls == b.cls else a.cls, z3.If(cs, a.ident, b.ident),
                        label='ite')
        if isinstance(a, tuple) and isinstance(b, tuple) and len(a) == len(b):
            return tuple(self.ite_value(c, x, y) for x, y in zip(a, b))
        return ite(c, a, b)

    def key_term(self, k):
        if isinstance(k, Opt):
            k = self.unopt(k)
        if isinstance(k, tuple) and len(k) == 3 and all(is_reallike(x) for x in k):
            # a coordinate triple used as a dictionary key: abstract key identity, a function of the
            # three coordinates (equal coordinates -> equal keys)
            R = z3.RealSort()
            return self.uf('keyof', R, R, R, z3.IntSort())(*[term(x, True) for x in k])
        if isinstance(k, SObj):
            return k.ident
        if isinstance(k, OptObj):
            return k.obj.ident
        if is_intlike(k):
            return term(k)
        if isinstance(k, ClassRef):
            # a class used as a key: one fixed (negative) integer per class name
            names = self.__dict__.setdefault('_class_keys', {})
            nm = getattr(k, 'name', None) or getattr(k, 'qual', None) or repr(k)
            if nm not in names:
                names[nm] = -1000 - len(names)
            return z3.IntVal(names[nm])
        raise EngineError('container key %r not supported' % (k,))

    # ---------------------------------------------------------- expressions
    def eval(self, e, env):
        m = getattr(self, 'ev_' + e.__class__.__name__, None)
        if m is None:
            raise EngineError('expression %s outside the subset (line %s)'
                              % (e.__class__.__name__, getattr(e, 'lineno', '?')))
        return m(e, env)

    def ev_Constant(self, e, env):
        v = e.value
        if isinstance(v, str):
            return AStr([('lit', v)])
        if isinstance(v, (float, complex)):
            return conc(v)
        return v

    def load_name(self, name, env):
        if name in env:
            return env[name]
        return self.load_global(name)

    def load_global(self, name):
        if name in self._globals_cache:
            return self._globals_cache[name]
        v = self._load_global(name)
        self._globals_cache[name] = v
        return v

    def _load_global(self, name):
        from . import builtins as B
        if name in self.repo.classes:
            return ClassRef(name)
        if name in self.repo.functions:
            node, mod = self.repo.functions[name]
            return FuncRef(self.fn_override.get(name, node), name, mod)
        if name in B.GLOBALS:
            return B.GLOBALS[name]
        if name in self.repo.module_consts:
            return self.eval(self.repo.module_consts[name], {})
        if name in EXC_PARENTS:
            return ClassRef(name)
        raise EngineError('unknown global name %r' % name)

    def ev_Name(self, e, env):
        return self.load_name(e.id, env)

    def ev_Tuple(self, e, env):
        out = []
        for x in e.elts:
            if isinstance(x, ast.Starred):
                out.extend(self.iter_concrete(self.eval(x.value, env)))
            else:
                out.append(self.eval(x, env))
        return tuple(out)

    def ev_List(self, e, env):
        out = []
        for x in e.elts:
            if isinstance(x, ast.Starred):
                out.extend(self.iter_concrete(self.eval(x.value, env)))
            else:
                out.append(self.eval(x, env))
        return SList([('conc', out)])

    def ev_Dict(self, e, env):
        d = {}
        for k, v in zip(e.keys, e.values):
            kk = self.eval(k, env)
            if isinstance(kk, AStr) and kk.is_lit():
                kk = kk.lit()
            d[kk] = self.eval(v, env)
        return d

    def ev_Set(self, e, env):
        s = SSet(None)
        for x in e.elts:
            v = self.eval(x, env)
            s.adds.append(self.key_term(v))
            s.objs.append(v)
        return s

    def set_members(self, s):
        """the distinct members of a set built from nothing but adds, in insertion order (equalities between
        members that the path condition leaves open are decided by forking); None when the set has a symbolic base
        or members whose values were not kept."""
        if s.base is not None or len(s.objs) != len(s.adds):
            return None
        out = []
        for k, v in zip(s.adds, s.objs):
            dup = False
            for k2, _ in out:
                if self.decide(SV(k == k2, 'bool')):
                    dup = True
                    break
            if not dup:
                out.append((k, v))
        return [v for _, v in out]

    def iter_concrete(self, v):
        items = self.concrete_items(v)
        if items is None:
            raise EngineError('cannot iterate %r concretely' % (v,))
        return items

    def ev_UnaryOp(self, e, env):
        v = self.eval(e.operand, env)
        if isinstance(e.op, ast.Not):
            return b_not(self.truth(v))
        if isinstance(e.op, ast.USub):
            return self.neg(v)
        if isinstance(e.op, ast.UAdd):
            return v
        if isinstance(e.op, ast.Invert):
            def inv(x):
                if isinstance(x, bool) or (isinstance(x, SV) and x.kind == 'bool'):
                    return b_not(x)          # ~ on a numpy bool (array): logical not
                if isinstance(x, int):
                    return ~x
                raise EngineError('~ of a symbolic non-boolean value')
            if isinstance(v, NDArr):
                # (a plain Python bool would give -2 for ~True; arrays of bools are numpy bool arrays here)
                return NDArr(mapnd(inv, v.data))
            if isinstance(v, bool):
                return ~v
            return inv(v)
        raise EngineError('unary op')

    def neg(self, v):
        if isinstance(v, CX):
            return c_neg(v)
        if isinstance(v, NDArr):
            return NDArr(mapnd(self.neg, v.data))
        if isinstance(v, Opt):
            return r_neg(self.unopt(v))
        return r_neg(v)

    def unopt(self, v, what='value'):
        """use of an Optional scalar as a number: None -> TypeError path."""
        if isinstance(v, Opt):
            if self.decide(SV(v.isnone, 'bool')):
                raise PyRaise('TypeError', ('None used as number',))
            return v.val
        if v is None:
            raise PyRaise('TypeError', ('None used as number',))
        return v

    def ev_BoolOp(self, e, env):
        if isinstance(e.op, ast.And):
            v = True
            for x in e.values:
                v = self.eval(x, env)
                if not self.test(v):
                    return v
            return v
        else:
            v = False
            for x in e.values:
                v = self.eval(x, env)
                if self.test(v):
                    return v
            return v

    def ev_IfExp(self, e, env):
        if self.test(self.eval(e.test, env)):
            return self.eval(e.body, env)
        return self.eval(e.orelse, env)

    def ev_Compare(self, e, env):
        left = self.eval(e.left, env)
        res = True
        for op, rn in zip(e.ops, e.comparators):
            right = self.eval(rn, env)
            r = self.compare(op, left, right)
            res = b_and(res, r) if res is not True else r
            left = right
        return res

    def compare(self, op, a, b):
        if isinstance(op, (ast.Is, ast.IsNot)):
            r = self.is_same(a, b)
            return b_not(r) if isinstance(op, ast.IsNot) else r
        if isinstance(op, (ast.In, ast.NotIn)):
            r = self.contains(b, a)
            return b_not(r) if isinstance(op, ast.NotIn) else r
        if isinstance(op, (ast.Eq, ast.NotEq)):
            r = self.py_eq(a, b)
            if isinstance(r, NDArr) and isinstance(op, ast.NotEq):
                return NDArr(mapnd(lambda v: b_not(self.truth(v)), r.data))
            return b_not(r) if isinstance(op, ast.NotEq) else r
        sym = {ast.Lt: '<', ast.LtE: '<=', ast.Gt: '>', ast.GtE: '>='}[type(op)]
        if isinstance(a, NDArr) or isinstance(b, NDArr):
            return self.nd_binary(lambda x, y: self.compare(op, x, y), a, b)
        a = self.unopt(a)
        b = self.unopt(b)
        if isinstance(a, CX) or isinstance(b, CX):
            raise PyRaise('TypeError', ('ordering of complex',))
        if isinstance(a, AStr) or isinstance(b, AStr):
            raise EngineError('ordering of strings')
        return r_cmp(sym, a, b)

    def is_same(self, a, b):
        if a is None or b is None:
            return self.values_equal(a, b) if (isinstance(a, (Opt, OptObj)) or isinstance(b, (Opt, OptObj))) \
                else (a is None and b is None)
        if isinstance(a, OptObj):
            a = a.obj
        if isinstance(b, OptObj):
            b = b.obj
        if isinstance(a, SObj) and isinstance(b, SObj):
            return self.values_equal(a, b)
        if isinstance(a, bool) or isinstance(b, bool):
            return a is b
        raise EngineError('`is` on %r / %r' % (a, b))

    def py_eq(self, a, b):
        if getattr(self, 'digit_mode', False):
            from . import digits as D
            if isinstance(b, D.DBase) and not isinstance(a, D.DBase):
                a, b = b, a
            if isinstance(a, D.DBase):
                if isinstance(b, AStr) and b.is_lit():
                    try:
                        return D.eq_lit(self, a, b.lit())
                    except D.EngineErrorD as ex:
                        raise EngineError(str(ex))
                raise EngineError('comparison of a digit string with %r' % (b,))
        if isinstance(a, NDArr) or isinstance(b, NDArr):
            return self.nd_binary(lambda x, y: self.py_eq(x, y), a, b)
        if isinstance(a, AStr) and isinstance(b, AStr) and a.is_lit() and b.is_lit():
            return a.lit() == b.lit()
        if isinstance(a, AStr) or isinstance(b, AStr):
            if isinstance(a, AStr) and isinstance(b, AStr):
                return self.str_eq(a, b)
            return False
        return self.values_equal(a, b)

    # ------------------------------------------------------------ E3: abstract option strings
    def mk_fields(self, fields, sep=','):
        """an option value as the user types it: fields separated by `sep`.
        fields: list of (value, kind[, text]); kind in int / float / complex / text / empty"""
        toks = []
        for k, f in enumerate(fields):
            if k:
                toks.append(('lit', sep))
            toks.append(('fld', f[0], f[1], f[2] if len(f) > 2 else None))
        return AStr(toks)

    def str_split(self, s, args, kw):
        sep = args[0].lit() if args else None
        if sep != ',':
            raise EngineError('split separator %r not modelled' % sep)
        parts = [[]]
        for t in s.toks:
            if t[0] == 'lit':
                segs = t[1].split(',')
                for k, seg in enumerate(segs):
                    if k:
                        parts.append([])
                    if seg:
                        parts[-1].append(('lit', seg))
            else:
                parts[-1].append(t)
        out = []
        for p_ in parts:
            if not p_:
                out.append(AStr([('fld', None, 'empty', '')]))
            else:
                out.append(AStr(p_))
        return SList([('conc', out)])

    def parse_number(self, s, what):
        """int() / float() / complex() of an abstract string: accepts exactly the literal grammar
        of the conversion, returns the denoted value, ValueError otherwise."""
        if s.is_lit():
            txt = s.lit()
            try:
                if what == 'int':
                    return int(txt)
                if what == 'float':
                    return conc(float(txt))
                return conc(complex(txt))
            except ValueError:
                raise PyRaise('ValueError', ('invalid literal %r' % txt,))
        toks = [t for t in s.toks if not (t[0] == 'mod')]
        if len(s.toks) == 1 and s.toks[0][0] == 'mod':
            return self.parse_number(s.toks[0][2], what)
        if what == 'complex' and any(t[0] == 'conv' for t in s.toks):
            return self.parse_complex_tokens(s)
        if len(toks) == 1 and toks[0][0] == 'conv':
            spec, v = toks[0][1], toks[0][2]
            if spec[-1] in 'gGeEf' and what in ('float', 'complex'):
                return v
            if spec[-1] == 'd' and is_intlike(v):
                return v if what == 'int' else (SV(term(v, True), 'real') if isinstance(v, SV) else Fraction(v))
            raise PyRaise('ValueError', ('%s() of a %s conversion' % (what, spec),))
        if len(toks) != 1 or toks[0][0] != 'fld':
            raise EngineError('number conversion of a composite abstract string %r' % (s,))
        _, value, kind, text = toks[0]
        ok = {'int': ('int',), 'float': ('int', 'float'), 'complex': ('int', 'float', 'complex')}[what]
        if kind not in ok:
            raise PyRaise('ValueError', ('invalid literal for %s(): %s field' % (what, kind),))
        if what == 'float' and kind == 'int':
            return SV(term(value, True), 'real') if isinstance(value, SV) else Fraction(value)
        return value

    def parse_complex_tokens(self, s):
        """complex() applied to text built from %g-style conversions: the rendering classes of every
        conversion (negative / zero / positive) are enumerated by forking; each class is rendered with
        representative digits by Python's own % operator and given to Python's own complex() parser;
        the parse result must put the representatives into the right slots."""
        convs = [t for t in s.toks if t[0] == 'conv']
        reps = []
        for k, t in enumerate(convs):
            v = t[2]
            if self.decide(r_cmp('<', v, 0)):
                reps.append(-(2.5 + k))
            elif self.decide(r_cmp('==', v, 0)):
                reps.append(0.0)
            else:
                reps.append(2.5 + k)
        txt = ''
        it = iter(reps)
        for t in s.toks:
            if t[0] == 'lit':
                txt += t[1]
            elif t[0] == 'conv':
                txt += t[1] % next(it)
            else:
                raise EngineError('complex() of %r' % (s,))
        try:
            z = complex(txt)
        except ValueError:
            raise PyRaise('ValueError', ('complex() rejects %r' % txt,))
        # which conversion ended up in which part?
        def slot(x):
            for k, rp in enumerate(reps):
                if rp != 0 and abs(x - rp) < 1e-9:
                    return convs[k][2]
            if x == 0:
                return 0
            raise PyRaise('ValueError', ('complex() of %r gives %r: a value in no slot' % (txt, z),))
        return CX(slot(z.real), slot(z.imag))

    def str_eq(self, a, b):
        for x, y in ((a, b), (b, a)):
            if x.is_lit() and len(y.toks) == 1 and y.toks[0][0] == 'fld':
                k = y.toks[0]
                if k[2] == 'text':
                    return k[3] == x.lit()
                if k[2] == 'empty':
                    return x.lit() == ''
                # a numeric field never equals a non-numeric literal
                try:
                    float(x.lit())
                except ValueError:
                    return False
        # only symbolic opaque strings ('str' tokens) against literals: undecidable here
        raise EngineError('comparison of abstract strings %r == %r' % (a, b))

    def contains(self, cont, x):
        if getattr(self, 'digit_mode', False):
            from . import digits as D
            if isinstance(cont, D.DBase):
                try:
                    return D.contains(self, cont, x)
                except D.EngineErrorD as ex:
                    raise EngineError(str(ex))
        if isinstance(cont, SSet):
            return SV(self.set_has(cont, self.key_term(x)), 'bool')
        if isinstance(cont, SDict):
            return SV(self.dict_has(cont, self.key_term(x)), 'bool')
        if isinstance(cont, dict):
            if isinstance(x, AStr) and x.is_lit():
                return x.lit() in cont
            return b_or(*[self.py_eq(x, getattr(k, 'v', k) if k.__class__.__name__ == 'SymKey' else k) for k in cont]) if cont else False
        if isinstance(cont, (list, tuple)) or (isinstance(cont, SList) and cont.is_concrete()):
            items = cont.concrete() if isinstance(cont, SList) else cont
            return b_or(*[self.py_eq(x, k) for k in items]) if items else False
        if isinstance(cont, SList):
            return self.slist_contains(cont, x)
        if isinstance(cont, AStr) and cont.is_lit() and isinstance(x, AStr) and x.is_lit():
            return x.lit() in cont.lit()
        if isinstance(cont, set):
            if isinstance(x, AStr) and x.is_lit():
                return x.lit() in cont
        raise EngineError('`in` on %r' % (cont,))

    def slist_contains(self, lst, x):
        """membership in a symbolic list: uninterpreted predicate per chunk."""
        conds = []
        for c in lst.chunks:
            if c[0] == 'conc':
                conds.extend(self.py_eq(x, k) for k in c[1])
            elif c[0] == 'seq':
                f = self.uf('member.' + c[1].label, z3.IntSort(), z3.BoolSort())
                conds.append(SV(f(self.key_term(x)), 'bool'))
            else:
                f = self.uf('member.' + c[1], z3.IntSort(), z3.BoolSort())
                conds.append(SV(f(self.key_term(x)), 'bool'))
        return b_or(*conds) if conds else False

    def ev_BinOp(self, e, env):
        a = self.eval(e.left, env)
        if isinstance(e.op, ast.Mod) and isinstance(a, AStr):
            return self.str_format(a, self.eval(e.right, env))
        b = self.eval(e.right, env)
        return self.binop(e.op, a, b)

    def binop(self, op, a, b, inplace=False):
        if getattr(self, 'digit_mode', False):
            from . import digits as D
            if isinstance(a, D.DBase) or isinstance(b, D.DBase):
                if isinstance(op, ast.Add):
                    try:
                        return D.concat(self, a, b)
                    except D.EngineErrorD as ex:
                        raise EngineError(str(ex))
                raise EngineError('operator on a digit string')
        if isinstance(a, SArr) or isinstance(b, SArr):
            return self.sarr_binary(lambda x, y: self.binop(op, x, y), a, b)
        if isinstance(a, (NDArr,)) or isinstance(b, (NDArr,)):
            if isinstance(op, ast.MatMult):
                return self.matmul(a, b)
            mask = getattr(b, 'masked_by', None) if isinstance(b, NDArr) else None
            if isinstance(op, ast.Div) and mask is not None and isinstance(a, NDArr) and a.shape == b.shape == mask.shape:
                # x[mask] / y[mask]: numpy divides the selected elements only
                fa, fb, fm = flat(a.data), flat(b.data), flat(mask.data)
                outv = []
                for x, y, m_ in zip(fa, fb, fm):
                    if self.decide(self.truth(m_)):
                        outv.append(self.binop(op, x, y))
                    else:
                        outv.append(0)
                it_ = iter(outv)
                r = NDArr(mapnd(lambda v: next(it_), a.data))
                r.masked_by = mask
                return r
            r = self.nd_binary(lambda x, y: self.binop(op, x, y), a, b)
            for o in (a, b):
                if isinstance(o, NDArr) and getattr(o, 'masked_by', None) is not None and isinstance(r, NDArr) and r.shape == o.shape:
                    r.masked_by = o.masked_by
            return r
        if isinstance(a, AStr) or isinstance(b, AStr):
            return self.str_binop(op, a, b)
        if isinstance(a, (tuple, list, SList)) or isinstance(b, (tuple, list, SList)):
            return self.seq_binop(op, a, b)
        a = self.unopt(a)
        b = self.unopt(b)
        cx = isinstance(a, CX) or isinstance(b, CX)
        if isinstance(op, ast.Add):
            return c_add(a, b) if cx else r_add(a, b)
        if isinstance(op, ast.Sub):
            return c_sub(a, b) if cx else r_sub(a, b)
        if isinstance(op, ast.Mult):
            return c_mul(a, b) if cx else r_mul(a, b)
        if isinstance(op, ast.Div):
            if cx:
                bb = to_cx(b)
                if self.decide(b_and(r_cmp('==', bb.re, 0), r_cmp('==', bb.im, 0))):
                    raise PyRaise('ZeroDivisionError', ())
                if getattr(self, 'name_real_quotients', False) and not isinstance(bb.im, SV) and bb.im == 0 and isinstance(bb.re, SV):
                    aa_ = to_cx(a)
                    return CX(self.real_quot(aa_.re, bb.re), self.real_quot(aa_.im, bb.re))
                q = c_div(a, b)
                if isinstance(bb.im, SV) and isinstance(q.re, SV) and isinstance(q.im, SV):
                    # name the quotient and hand the solver the (derived) product form q*b = a; b != 0 on this path
                    self._qn = getattr(self, '_qn', 0) + 1
                    nm = z3.Real('quot%d.re' % self._qn), z3.Real('quot%d.im' % self._qn)
                    qq = CX(SV(nm[0], 'real'), SV(nm[1], 'real'))
                    back = c_mul(qq, bb)
                    aa = to_cx(a)
                    self.pc.append(z3.And(nm[0] == term(q.re, True), nm[1] == term(q.im, True),
                                          term(back.re, True) == term(aa.re, True), term(back.im, True) == term(aa.im, True)))
                    return qq
                return q
            if self.decide(r_cmp('==', b, 0)):
                raise PyRaise('ZeroDivisionError', ())
            if getattr(self, 'name_real_quotients', False) and isinstance(b, SV) and b.kind != 'bool' and is_reallike(a):
                return self.real_quot(a, b)
            return r_div(a, b)
        if isinstance(op, ast.Pow):
            return self.power(a, b)
        if isinstance(op, ast.LShift):
            if not isinstance(a, SV) and not isinstance(b, SV):
                return a << b
            if not isinstance(a, SV) and a == 1 and is_intlike(b):
                # 1 << i : a positive integer, strictly increasing in i (uninterpreted power of two)
                f = self.uf('pow2', z3.IntSort(), z3.IntSort())
                t = f(term(b))
                self.pc.append(z3.And(t >= 1, z3.Implies(term(b) == 0, t == 1), f(term(b) + 1) == 2 * t))
                return SV(t, 'int')
            raise EngineError('shift of symbolic values')
        if isinstance(op, (ast.BitAnd, ast.BitOr)) and all(isinstance(x, bool) or (isinstance(x, SV) and x.kind == 'bool') for x in (a, b)):
            # numpy bool arrays / Python bools: & and | are the logical operations
            return b_and(a, b) if isinstance(op, ast.BitAnd) else b_or(a, b)
        if isinstance(op, ast.BitAnd):
            if not isinstance(a, SV) and not isinstance(b, SV):
                return a & b
            if not isinstance(b, SV) and b == 1 and is_intlike(a):
                return SV(term(a) % 2, 'int')
            raise EngineError('bit-and of symbolic values')
        if isinstance(op, (ast.FloorDiv, ast.Mod)):
            if cx:
                raise PyRaise('TypeError', ())
            if not isinstance(a, SV) and not isinstance(b, SV):
                if b == 0:
                    raise PyRaise('ZeroDivisionError', ())
                return a // b if isinstance(op, ast.FloorDiv) else a % b
            if is_intlike(a) and is_intlike(b):
                if self.decide(r_cmp('==', b, 0)):
                    raise PyRaise('ZeroDivisionError', ())
                if not self.decide(r_cmp('>', b, 0)):
                    raise EngineError('floor division by a negative symbolic int')
                t = term(a) / term(b) if isinstance(op, ast.FloorDiv) else term(a) % term(b)
                return SV(t, 'int')
            # real modulo: x % y = x - y*floor(x/y)
            if self.decide(r_cmp('==', b, 0)):
                raise PyRaise('ZeroDivisionError', ())
            q = SV(z3.ToReal(z3.ToInt(term(a, True) / term(b, True))), 'real')
            if isinstance(op, ast.FloorDiv):
                return q
            return r_sub(a, r_mul(b, q))
        raise EngineError('binary operator %s' % op.__class__.__name__)

    def power(self, a, b):
        if not isinstance(b, (SV, CX)) and isinstance(b, int) and 0 <= b <= 4:
            r = 1
            for _ in range(b):
                r = c_mul(r, a) if isinstance(a, CX) else r_mul(r, a)
            return r
        if not isinstance(a, (SV, CX)) and not isinstance(b, (SV, CX)):
            if isinstance(b, int):
                return Fraction(a) ** b if b < 0 else a ** b
        from . import builtins as B
        return B.generic_pow(self, a, b)

    def seq_binop(self, op, a, b):
        if isinstance(op, ast.Add):
            if isinstance(a, tuple) and isinstance(b, tuple):
                return a + b
            if isinstance(a, SList) and isinstance(b, SList):
                return SList(a.copy().chunks + b.copy().chunks)
        if isinstance(op, ast.Mult):
            if isinstance(a, (tuple,)) and isinstance(b, int):
                return a * b
            if isinstance(a, SList) and a.is_concrete() and isinstance(b, int):
                return SList([('conc', a.concrete() * b)])
        raise EngineError('sequence operator %s on %r, %r' % (op.__class__.__name__, a, b))

    # ---- strings
    def str_binop(self, op, a, b):
        if isinstance(op, ast.Add) and isinstance(a, AStr) and isinstance(b, AStr):
            return AStr(a.toks + b.toks)
        if isinstance(op, ast.Mult):
            if isinstance(a, AStr) and isinstance(b, int) and a.is_lit():
                return AStr([('lit', a.lit() * b)])
            if isinstance(b, AStr) and isinstance(a, int) and b.is_lit():
                return AStr([('lit', b.lit() * a)])
            if isinstance(a, AStr) and isinstance(b, int):
                return AStr(a.toks * b)
        raise EngineError('string operator %s on %r, %r' % (op.__class__.__name__, a, b))

    def str_format(self, fmt, args):
        import re
        if not isinstance(args, tuple):
            args = (args,)
        if getattr(self, 'digit_mode', False):
            r = self.digit_format(fmt, args)
            if r is not None:
                return r
        toks = []
        args = list(args)
        for t in fmt.toks:
            if t[0] != 'lit':
                toks.append(t)
                continue
            pos = 0
            s = t[1]
            for m in re.finditer(r'%([-+ #0]*)(\d+)?(?:\.(\d+))?([sdgGeEfFr%])', s):
                toks.append(('lit', s[pos:m.start()]))
                pos = m.end()
                if m.group(4) == '%':
                    toks.append(('lit', '%'))
                    continue
                if not args:
                    raise PyRaise('TypeError', ('not enough arguments for format string',))
                v = args.pop(0)
                spec = m.group(0)
                if m.group(4) == 's':
                    if isinstance(v, AStr):
                        if m.group(2) or m.group(1):
                            toks.append(('conv', spec, v))
                        else:
                            toks.extend(v.toks)
                    elif isinstance(v, str):
                        toks.append(('lit', v))
                    else:
                        toks.append(('conv', spec, v))
                else:
                    if isinstance(v, AStr):
                        raise PyRaise('TypeError', ('%s format: a number is required' % spec,))
                    toks.append(('conv', spec, v))
            toks.append(('lit', s[pos:]))
        if args:
            raise PyRaise('TypeError', ('not all arguments converted during string formatting',))
        return AStr(toks)

    def real_quot(self, a, b):
        """a / b for symbolic real b that is non-zero on this path, named by its defining product: q * b = a (and
        q = a / b, so that z3 still sees the division)"""
        if not isinstance(a, SV) and a == 0:
            return 0
        key = (term(a, True).get_id(), term(b, True).get_id())
        cache = self.__dict__.setdefault('_rq_cache', {})
        hit = cache.get(key)
        if hit is not None and hit[1] < len(self.pc) + 1 and hit[2] < len(self.pc) and self.pc[hit[2]] is hit[3]:
            return hit[0]
        self._qn = getattr(self, '_qn', 0) + 1
        q = z3.Real('rquot%d' % self._qn)
        fact = z3.And(q * term(b, True) == term(a, True), q == term(a, True) / term(b, True))
        self.pc.append(fact)
        r = SV(q, 'real')
        cache[key] = (r, len(self.pc), len(self.pc) - 1, fact)
        return r

    def digit_format(self, fmt, args):
        """digit-string mode (pyvc/digits.py): `'%% .%df' % prec` with a symbolic precision is made concrete by forking;
        `'% .Nf' % x`, `'% e' % x` give digit strings; `'%-9s' % s` pads one"""
        import re
        from . import digits as D
        try:
            return self._digit_format(fmt, args, D)
        except D.EngineErrorD as ex:
            raise EngineError(str(ex))

    def _digit_format(self, fmt, args, D):
        import re
        if len(args) == 1 and isinstance(args[0], D.DBase) and fmt.is_lit():
            m = re.fullmatch(r'%-(\d+)s', fmt.lit())
            if m:
                return D.pad_left_justified(self, args[0], int(m.group(1)))
            if fmt.lit() == '%s':
                return args[0]
            raise EngineError('format %r of a digit string' % fmt.lit())
        if fmt.is_lit() and len(args) == 1 and (is_reallike(args[0]) or isinstance(args[0], Opt)):
            x = self.unopt(args[0])
            m = re.fullmatch(r'% \.(\d+)f', fmt.lit())
            if m:
                return D.make_fixed(self, x, int(m.group(1)))
            if fmt.lit() == '% e':
                return D.make_sci(self, x)
            if re.fullmatch(r'%%[^%]*%d[a-zA-Z]', fmt.lit()) and is_intlike(x):
                # building a conversion specification from a computed precision: the value must be concrete
                if isinstance(x, SV):
                    for c in range(0, 80):
                        if self.decide(r_cmp('==', x, c)):
                            x = c
                            break
                    else:
                        raise EngineError('precision outside 0..79')
                return AStr([('lit', fmt.lit() % x)])
        return None

    # ---- arrays
    def nd_binary(self, f, a, b):
        """elementwise f with numpy broadcasting (shapes aligned from the last axis; an axis of length 1 stretches)."""
        A, B = nd_to_obj(self, a), nd_to_obj(self, b)
        import numpy as _np
        try:
            shape = _np.broadcast_shapes(A.shape, B.shape)
        except ValueError:
            raise PyRaise('ValueError', ('operands could not be broadcast together',))
        Ab, Bb = _np.broadcast_to(A, shape), _np.broadcast_to(B, shape)
        out = _np.empty(shape, dtype=object)
        for ix in _np.ndindex(*shape):
            out[ix] = f(Ab[ix], Bb[ix])
        return nd_from_obj(out)

    def sarr_binary(self, f, a, b):
        """elementwise operation on symbolic rank-1 arrays / scalars (lazy map)"""
        sa, sb = isinstance(a, SArr), isinstance(b, SArr)
        if sa and sb:
            if a.rank != b.rank:
                raise EngineError('broadcast of symbolic arrays of different rank')
            ac, bc = a.copy(), b.copy()
            r = SArr(lambda idx: f(ac.read(idx), bc.read(idx)), a.rank, 'real', 'map', a.length)
            r.same_len = (a.length, b.length)
            return r
        if sa:
            if not (is_num(b) or isinstance(b, Opt)):
                raise EngineError('symbolic array with %r' % (b,))
            ac = a.copy()
            return SArr(lambda idx: f(ac.read(idx), b), a.rank, 'real', 'map', a.length)
        if not (is_num(a) or isinstance(a, Opt)):
            raise EngineError('symbolic array with %r' % (a,))
        bc = b.copy()
        return SArr(lambda idx: f(a, bc.read(idx)), b.rank, 'real', 'map', b.length)

    def matmul(self, a, b):
        A = a.data
        B = b.data
        add = lambda x, y: self.binop(ast.Add(), x, y)
        mul = lambda x, y: self.binop(ast.Mult(), x, y)

        def dot(u, v):
            r = 0
            for x, y in zip(u, v):
                r = add(r, mul(x, y))
            return r
        if A and isinstance(A[0], list):
            if B and isinstance(B[0], list):
                cols = [[B[i][j] for i in range(len(B))] for j in range(len(B[0]))]
                return NDArr([[dot(row, col) for col in cols] for row in A])
            return NDArr([dot(row, B) for row in A])
        if B and isinstance(B[0], list):
            cols = [[B[i][j] for i in range(len(B))] for j in range(len(B[0]))]
            return NDArr([dot(A, col) for col in cols])
        return dot(A, B)

    # ---- attribute / subscript
    def ev_Attribute(self, e, env):
        obj = self.eval(e.value, env)
        return self.getattr(obj, e.attr, e)

    def getattr(self, obj, name, node=None):
        from . import builtins as B
        if isinstance(obj, OptObj):
            if self.decide(SV(obj.obj.ident == 0, 'bool')):
                raise PyRaise('AttributeError', ("'NoneType' object has no attribute %s" % name,))
            obj = obj.obj
        if isinstance(obj, SObj):
            if self.fmap_of(obj.cls, name) is not None:
                return self.getfield(obj, name)
            if name in obj.fields:
                return obj.fields[name]
            if obj.cls in self.repo.classes:
                p, c = self.repo.find_prop(obj.cls, name)
                if p is not None:
                    qual = '%s.%s' % (c, name)
                    return self.call(FuncRef(self.fn_override.get(qual, p), qual,
                                             self.repo.classes[c].module, c), [obj], {})
                fn, c = self.repo.find_method(obj.cls, name)
                if fn is not None:
                    qual = '%s.%s' % (c, name)
                    return BoundMethod(obj, FuncRef(self.fn_override.get(qual, fn), qual,
                                                    self.repo.classes[c].module, c))
                k = self.repo.find_const(obj.cls, name)
                if k is not None and self.field_type(obj.cls, name) is None:
                    return self.eval(k, {})
            if name == '__class__':
                return ClassRef(obj.cls)
            return self.getfield(obj, name, node)
        if isinstance(obj, Namespace):
            if name in obj.members:
                return obj.members[name]
            raise EngineError('%s.%s not modelled' % (obj.name, name))
        if isinstance(obj, ClassRef):
            if name == '__name__':
                return AStr([('lit', obj.name)])
            fn, c = self.repo.find_method(obj.name, name)
            if fn is not None:
                qual = '%s.%s' % (c, name)
                return FuncRef(self.fn_override.get(qual, fn), qual, self.repo.classes[c].module, c)
            k = self.repo.find_const(obj.name, name)
            if k is not None:
                return self.eval(k, {})
            raise EngineError('class attribute %s.%s' % (obj.name, name))
        if obj is None:
            raise PyRaise('AttributeError', ("'NoneType' object has no attribute %s" % name,))
        return B.method_of(self, obj, name)

    def setattr(self, obj, name, v):
        if isinstance(obj, OptObj):
            obj = obj.obj
        if not isinstance(obj, SObj):
            raise EngineError('attribute store on %r' % (obj,))
        if obj.cls in self.repo.classes:
            st, c = self.repo.find_setter(obj.cls, name)
            if st is not None:
                qual = '%s.%s.setter' % (c, name)
                self.call(FuncRef(self.fn_override.get(qual, st), qual,
                                  self.repo.classes[c].module, c), [obj, v], {})
                return
        self.setfield(obj, name, v)

    def eval_index(self, s, env):
        if isinstance(s, ast.Slice):
            return slice(self.eval(s.lower, env) if s.lower else None,
                         self.eval(s.upper, env) if s.upper else None,
                         self.eval(s.step, env) if s.step else None)
        if isinstance(s, ast.Tuple):
            return tuple(self.eval_index(x, env) for x in s.elts)
        return self.eval(s, env)

    def ev_Subscript(self, e, env):
        base = self.eval(e.value, env)
        idx = self.eval_index(e.slice, env)
        return self.getitem(base, idx)

    def getitem(self, base, idx):
        from . import builtins as B
        return B.getitem(self, base, idx)

    def setitem(self, base, idx, v):
        from . import builtins as B
        return B.setitem(self, base, idx, v)

    # ---- comprehensions / lambda
    def ev_Lambda(self, e, env):
        return Closure(e, dict(env))

    def ev_ListComp(self, e, env):
        if len(e.generators) == 1 and not e.generators[0].ifs:
            it = self.iterable(self.eval(e.generators[0].iter, env))
            if self.concrete_items(it) is None:
                # [f(x) for x in <symbolic sequence>]: the list of the mapped sequence (same model as the generator expression;
                # the element expression is evaluated for a generic index when an element is asked for)
                return self.ev_GeneratorExp(e, env)
        return SList([('conc', self.comprehension(e.elt, e.generators, env))])

    def ev_GeneratorExp(self, e, env):
        if len(e.generators) == 1 and not e.generators[0].ifs:
            g = e.generators[0]
            it = self.iterable(self.eval(g.iter, env))
            if self.concrete_items(it) is None:
                seq = self.as_seq(it)

                def at(i, g=g, env=env, e=e, seq=seq):
                    env2 = dict(env)
                    self.assign(g.target, seq.at(i), env2)
                    return self.eval(e.elt, env2)
                r = SSeq(seq.length, at, 'map(%s)' % seq.label)
                r.map_of = (seq, ast.unparse(e.elt))
                return SList([('seq', r)])
        return SList([('conc', self.comprehension(e.elt, e.generators, env))])

    def ev_SetComp(self, e, env):
        raise EngineError('set comprehension')

    def comprehension(self, elt, gens, env):
        out = []

        def rec(k, env):
            if k == len(gens):
                out.append(self.eval(elt, env))
                return
            g = gens[k]
            it = self.iterable(self.eval(g.iter, env))
            items = self.concrete_items(it)
            if items is None:
                raise EngineError('comprehension over symbolic sequence: %s' % ast.unparse(g.iter))
            for x in items:
                env2 = dict(env)
                self.assign(g.target, x, env2)
                if all(self.test(self.eval(c, env2)) for c in g.ifs):
                    rec(k + 1, env2)
        rec(0, dict(env))
        return out

    def ev_Yield(self, e, env):
        v = self.eval(e.value, env) if e.value is not None else None
        self.yield_stack[-1].append(v)
        self.note_write(('yield',))
        return None

    def ev_YieldFrom(self, e, env):
        # `yield from it` over something that can be enumerated here: the same as `for x in it: yield x`
        for v in self.iter_concrete(self.eval(e.value, env)):
            self.yield_stack[-1].append(v)
            self.note_write(('yield',))
        return None

    def ev_JoinedStr(self, e, env):
        raise EngineError('f-string')

    def ev_Starred(self, e, env):
        raise EngineError('starred expression')

    # ---- calls
    def ev_Call(self, e, env):
        f = self.eval(e.func, env)
        args = []
        for a in e.args:
            if isinstance(a, ast.Starred):
                args.extend(self.iter_concrete(self.eval(a.value, env)))
            else:
                args.append(self.eval(a, env))
        kwargs = {}
        for k in e.keywords:
            if k.arg is None:
                d = self.eval(k.value, env)
                if not isinstance(d, dict):
                    raise EngineError('** of non-dict')
                kwargs.update(d)
            else:
                kwargs[k.arg] = self.eval(k.value, env)
        if isinstance(f, Builtin) and f.name == 'super':
            return self.make_super(env)
        return self.call(f, args, kwargs, e)

    def make_super(self, env):
        fr = self.frames[-1]
        return SuperProxy(env.get('self'), fr['fref'].cls)

    def call(self, f, args, kwargs, node=None):
        if isinstance(f, Builtin):
            return f.impl(self, args, kwargs)
        if isinstance(f, BoundMethod):
            return self.call(f.fref, [f.obj] + list(args), kwargs, node)
        if isinstance(f, FuncRef):
            return self.call_user(f, args, kwargs)
        if isinstance(f, ClassRef):
            return self.construct(f, args, kwargs)
        if isinstance(f, Closure):
            env = dict(f.env)
            env.update(self.bind_args(f.node, args, kwargs))
            return self.eval(f.node.body, env)
        if isinstance(f, NestedFunc):
            env = dict(f.env)
            env.update(self.bind_args(f.node, args, kwargs))
            if len(self.frames) > 40:
                raise EngineError('inlining depth')
            outer = f.frame or (self.frames[-1] if self.frames else None)
            frame = dict(outer) if outer else {}
            frame.update({'env': env, 'node': f.node, 'nested': True})
            self.frames.append(frame)
            try:
                try:
                    self.exec_block(f.node.body, env)
                    return None
                except _Return as r:
                    return r.value
            finally:
                self.frames.pop()
        raise EngineError('call of %r' % (f,))

    def call_user(self, fref, args, kwargs):
        q = fref.qual
        if q in self.summaries:
            self.summaries_used.add(q)
            return self.summaries[q](self, args, kwargs)
        if q in self.inline or '*' in self.inline:
            self.inlined_seen.add(q)
            if len(self.frames) > 40:
                raise EngineError('inlining depth')
            return self.exec_function(fref, args, kwargs)
        if self.auto_inline_ok(fref):
            # a loop-free helper that no unit claims (typically the product of an "extract method" refactoring):
            # executing its real body in place is sound; it is reported in the evidence
            self.auto_inlined.add(q)
            if len(self.frames) > 12:
                raise EngineError('inlining depth (automatic)')
            return self.exec_function(fref, args, kwargs)
        raise EngineError('call to %s: no contract (summary) and not listed for inlining' % q)

    def auto_inline_ok(self, fref):
        q = fref.qual
        if q in getattr(self, 'contracted', ()) or q.endswith('.__init__'):
            return False
        node = self.fn_override.get(q) or fref.node
        if node is None:
            return False
        for x in ast.walk(node):
            if isinstance(x, ast.While):
                return False
        # loops and comprehensions are allowed: over concrete sequences they are simply executed, over symbolic ones the
        # engine stops with "no loop specification" exactly as it would for a function listed for inlining
        return True

    def construct(self, cref, args, kwargs):
        q = cref.name + '.__init__'
        if cref.name in EXC_PARENTS and cref.name not in self.repo.classes:
            return ExcValue(cref.name, args)
        if q in self.summaries:
            self.summaries_used.add(q)
            return self.summaries[q](self, args, kwargs)
        fn, c = self.repo.find_method(cref.name, '__init__')
        if (q in self.inline or '*' in self.inline or
                (c is not None and '%s.__init__' % c in self.inline)):
            obj = SObj(cref.name, label='new.' + cref.name)
            obj.fresh = True
            if fn is not None:
                self.inlined_seen.add('%s.__init__' % c)
                self.exec_function(FuncRef(self.fn_override.get('%s.__init__' % c, fn),
                                           '%s.__init__' % c, self.repo.classes[c].module, c),
                                   [obj] + list(args), kwargs)
            return obj
        raise EngineError('constructor %s: no contract and not listed for inlining' % cref.name)


class OptObj:
    """Optional object reference: identity 0 means None."""

    def __init__(self, obj):
        self.obj = obj

    def __repr__(self):
        return 'OptObj(%r)' % (self.obj,)


class ExcValue:
    def __init__(self, cls, args):
        self.cls = cls
        self.args = args


class SuperProxy:
    def __init__(self, obj, cls):
        self.obj = obj
        self.cls = cls


def nd_to_obj(eng, x):
    """NDArr / nested concrete list / scalar -> numpy object array (0-d for a scalar)"""
    import numpy as _np
    if isinstance(x, NDArr):
        sh = x.shape
        o = _np.empty(sh, dtype=object)
        for ix in _np.ndindex(*sh):
            v = x.data
            for k in ix:
                v = v[k]
            o[ix] = v
        return o
    if isinstance(x, SList) and x.is_concrete():
        x = x.concrete()
    if isinstance(x, (list, tuple)):
        return nd_to_obj(eng, NDArr(_nested(eng, x)))
    o = _np.empty((), dtype=object)
    o[()] = x
    return o


def _nested(eng, x):
    if isinstance(x, NDArr):
        return x.data
    if isinstance(x, SList) and x.is_concrete():
        x = x.concrete()
    if isinstance(x, (list, tuple)):
        return [_nested(eng, y) for y in x]
    return x


def nd_from_obj(o):
    """numpy object array -> NDArr (a 0-d array gives the scalar)"""
    if o.ndim == 0:
        return o[()]

    def tolist(a):
        if a.ndim == 1:
            return [a[k] for k in range(a.shape[0])]
        return [tolist(a[k]) for k in range(a.shape[0])]
    return NDArr(tolist(o), shape=o.shape if o.size == 0 else None)


def flat(d):
    if isinstance(d, list):
        out = []
        for x in d:
            out.extend(flat(x))
        return out
    return [d]


def mapnd(f, d):
    if isinstance(d, list):
        return [mapnd(f, x) for x in d]
    return f(d)
