"""Nullstellensatz-style certificates for polynomial equalities (an extra back end for `oblige`).

Goal: pc => A == B where A, B are polynomials over the reals in atoms (constants, applications of uninterpreted
functions, anything else opaque) and pc contains hypotheses h_i == 0 of two shapes:
    (trig)   c*c + s*s == 1          (the axiom instance that `trig` adds for every angle)
    (def)    v == e                  (v an uninterpreted constant or application f(...) that does not occur in e)
The module searches cofactors q_i with   A - B  ==  sum_i q_i * h_i   identically, by rewriting s^2 -> 1 - c^2 and
v -> e (normal forms are unique for the trig rules: they are a Groebner basis for any order with s > c).
What is trusted is small and stated in the evidence:
  * the rule  "h_i == 0 for all i  and  A - B == sum q_i h_i identically  =>  A == B";
  * that every h_i used is literally a conjunct of the path condition (checked syntactically here);
  * the identity itself is NOT taken from this module's arithmetic: it is handed to z3 as a closed formula without
    hypotheses and must come back unsat (z3 expands both sides to sums of monomials).
Nothing is assumed when no certificate is found: the obligation goes on to the other solvers.
"""
from fractions import Fraction
import z3


class NotPoly(Exception):
    pass


def _num(e):
    if z3.is_int_value(e):
        return Fraction(e.as_long())
    if z3.is_rational_value(e):
        return Fraction(e.numerator_as_long(), e.denominator_as_long())
    return None


class Ctx:
    def __init__(self):
        self.atoms = {}          # id -> expr
        self.budget = 200000
        self.canon = {}          # (function name, canonical argument polynomials) -> representative expr
        self.prods = []          # (q id, y id, poly of x, h expr) for hypotheses q*y == x
        self.merged = []         # (member expr, representative expr): applications identified because their arguments
                                 # are equal as polynomials (congruence); each pair is re-checked by z3 in certify

    def atom(self, e):
        if z3.is_app(e) and e.num_args() > 0 and e.decl().kind() == z3.Z3_OP_UNINTERPRETED \
                and all(c.sort() in (z3.RealSort(), z3.IntSort()) for c in e.children()):
            try:
                key = (e.decl().name(), tuple(poly_key(to_poly(self, c)) for c in e.children()))
            except NotPoly:
                key = None
            if key is not None:
                rep = self.canon.setdefault(key, e)
                if rep.get_id() != e.get_id():
                    self.merged.append((e, rep))
                    e = rep
        self.atoms[e.get_id()] = e
        return {((e.get_id(), 1),): Fraction(1)}


def poly_key(p):
    return tuple(sorted((m, c) for m, c in p.items()))


def p_add(a, b, sb=1):
    r = dict(a)
    for m, c in b.items():
        v = r.get(m, 0) + sb * c
        if v == 0:
            r.pop(m, None)
        else:
            r[m] = v
    return r


def m_mul(m1, m2):
    d = dict(m1)
    for k, e in m2:
        d[k] = d.get(k, 0) + e
    return tuple(sorted(d.items()))


def p_mul(ctx, a, b):
    r = {}
    for m1, c1 in a.items():
        for m2, c2 in b.items():
            ctx.budget -= 1
            if ctx.budget < 0:
                raise NotPoly('budget')
            m = m_mul(m1, m2)
            v = r.get(m, 0) + c1 * c2
            if v == 0:
                r.pop(m, None)
            else:
                r[m] = v
    return r


def to_poly(ctx, e):
    n = _num(e)
    if n is not None:
        return {(): n} if n != 0 else {}
    if z3.is_app(e):
        k = e.decl().kind()
        ch = e.children()
        if k == z3.Z3_OP_ADD:
            r = {}
            for c in ch:
                r = p_add(r, to_poly(ctx, c))
            return r
        if k == z3.Z3_OP_SUB:
            r = to_poly(ctx, ch[0])
            for c in ch[1:]:
                r = p_add(r, to_poly(ctx, c), -1)
            return r
        if k == z3.Z3_OP_UMINUS:
            return p_add({}, to_poly(ctx, ch[0]), -1)
        if k == z3.Z3_OP_MUL:
            r = {(): Fraction(1)}
            for c in ch:
                r = p_mul(ctx, r, to_poly(ctx, c))
            return r
        if k == z3.Z3_OP_TO_REAL:
            return to_poly(ctx, ch[0])
        if k == z3.Z3_OP_DIV:
            d = _num(ch[1])
            if d is not None and d != 0:
                return p_mul(ctx, to_poly(ctx, ch[0]), {(): 1 / d})
            return ctx.atom(e)
        if k == z3.Z3_OP_POWER:
            ex = _num(ch[1])
            if ex is not None and ex.denominator == 1 and 0 <= ex <= 8:
                r = {(): Fraction(1)}
                b = to_poly(ctx, ch[0])
                for _ in range(int(ex)):
                    r = p_mul(ctx, r, b)
                return r
            return ctx.atom(e)
    return ctx.atom(e)


def to_expr(ctx, p):
    terms = []
    for m, c in p.items():
        t = z3.RealVal(str(c))
        for k, ex in m:
            a = ctx.atoms[k]
            if a.sort() != z3.RealSort():
                a = z3.ToReal(a)
            for _ in range(ex):
                t = t * a
        terms.append(t)
    if not terms:
        return z3.RealVal(0)
    return z3.Sum(terms) if len(terms) > 1 else terms[0]


def conjuncts(f):
    if z3.is_and(f):
        for c in f.children():
            yield from conjuncts(c)
    else:
        yield f


def collect_rules(ctx, pc):
    """trig: list of (s_id, c_id, h_expr); defs: {v_id: (poly of e, h_expr)}"""
    trig, defs = [], {}
    prods = ctx.prods
    for f in pc:
        for c in conjuncts(f):
            if not z3.is_eq(c):
                continue
            l, r = c.children()
            if l.sort() == z3.BoolSort():
                continue
            # (trig)  x*x + y*y == 1
            if _num(r) == 1 and z3.is_app(l) and l.decl().kind() == z3.Z3_OP_ADD and len(l.children()) == 2:
                a, b = l.children()

                def sq(t):
                    if z3.is_app(t) and t.decl().kind() == z3.Z3_OP_MUL and len(t.children()) == 2 \
                            and t.children()[0].get_id() == t.children()[1].get_id():
                        return t.children()[0]
                    return None
                x, y = sq(a), sq(b)
                if x is not None and y is not None:
                    ctx.atoms[x.get_id()] = x
                    ctx.atoms[y.get_id()] = y
                    trig.append((y.get_id(), x.get_id(), l - r))
                    continue
            # (product def)  q * y == x  with q an uninterpreted constant, y one atom: rewrite q*y -> x
            if z3.is_app(l) and l.decl().kind() == z3.Z3_OP_MUL and len(l.children()) == 2:
                qv, yv = l.children()
                if z3.is_const(qv) and qv.decl().kind() == z3.Z3_OP_UNINTERPRETED and _num(qv) is None:
                    try:
                        py, px = to_poly(ctx, yv), to_poly(ctx, r)
                    except NotPoly:
                        py = None
                    if py is not None and len(py) == 1 and list(py.values())[0] == 1 and len(list(py.keys())[0]) == 1 \
                            and list(py.keys())[0][0][1] == 1:
                        yid = list(py.keys())[0][0][0]
                        ctx.atoms[qv.get_id()] = qv
                        prods.append((qv.get_id(), yid, px, l - r))
                        continue
            # (def)  v == e   with v an uninterpreted constant
            if z3.is_app(l) and l.decl().kind() == z3.Z3_OP_UNINTERPRETED and _num(l) is None \
                    and l.sort() != z3.BoolSort():
                # v == e with v an uninterpreted constant or an application f(args) used as an atom
                try:
                    pe = to_poly(ctx, r)
                except NotPoly:
                    continue
                if not any(k == l.get_id() for m in pe for k, _ in m) and l.get_id() not in defs:
                    ctx.atoms[l.get_id()] = l
                    defs[l.get_id()] = (pe, l - r)
    return trig, defs


def reduce_poly(ctx, p, trig, defs):
    """returns (normal form, cofactors {rule key: poly}) with p == nf + sum cof * h"""
    cof = {}
    trig_by_s = {s: (c, h) for s, c, h in trig}
    changed = True
    rounds = 0
    while changed:
        changed = False
        rounds += 1
        if rounds > 400:
            raise NotPoly('rounds')
        for m, coef in list(p.items()):
            # definitions first
            hit = None
            md = dict(m)
            for qid, yid, px, _h in ctx.prods:
                if md.get(qid, 0) >= 1 and md.get(yid, 0) >= 1:
                    hit = ('prod', (qid, yid))
                    break
            if hit is None:
                for k, ex in m:
                    if k in defs and not any(k == qid for qid, _y, _p, _h in ctx.prods):
                        hit = ('def', k)
                        break
                    if k in trig_by_s and ex >= 2:
                        hit = ('trig', k)
                        break
            if hit is None:
                continue
            if hit[0] == 'prod':
                qid, yid = hit[1]
                px = [p_ for q_, y_, p_, _h in ctx.prods if q_ == qid and y_ == yid][0]
                rest = dict(m)
                for kk in (qid, yid):
                    rest[kk] -= 1
                    if rest[kk] == 0:
                        del rest[kk]
                restm = tuple(sorted(rest.items()))
                q = {restm: coef}
                cof[('prod', qid, yid)] = p_add(cof.get(('prod', qid, yid), {}), q)
                p = p_add(p, {m: coef}, -1)
                p = p_add(p, p_mul(ctx, q, px))
                changed = True
                break
            kind, k = hit
            rest = tuple((a, e) for a, e in m if a != k)
            ex = dict(m)[k]
            if kind == 'def':
                # v * rest = (v - e) * rest + e * rest
                pe, _h = defs[k]
                lower = m_mul(rest, ((k, ex - 1),)) if ex > 1 else rest
                q = {lower: coef}
                cof[('def', k)] = p_add(cof.get(('def', k), {}), q)
                p = p_add(p, {m: coef}, -1)
                p = p_add(p, p_mul(ctx, q, pe))
            else:
                c_id, _h = trig_by_s[k]
                # s^2 * r = (c^2 + s^2 - 1) * r + (1 - c^2) * r
                lower = m_mul(rest, ((k, ex - 2),)) if ex > 2 else rest
                q = {lower: coef}
                cof[('trig', k)] = p_add(cof.get(('trig', k), {}), q)
                p = p_add(p, {m: coef}, -1)
                p = p_add(p, p_mul(ctx, q, {(): Fraction(1), ((c_id, 2),): Fraction(-1)}))
            changed = True
            break
    return p, cof


def goal_equalities(f):
    out = []
    for c in conjuncts(f):
        if z3.is_eq(c) and c.children()[0].sort() != z3.BoolSort():
            out.append(c)
        elif z3.is_true(c):
            continue
        else:
            return None
    return out


def certify(pc, goal, timeout_ms=20000):
    """True iff a certificate was found AND z3 confirmed the identity; never raises."""
    try:
        eqs = goal_equalities(goal)
        if not eqs:
            return False, None
        ctx = Ctx()
        trig, defs = collect_rules(ctx, pc)
        if not trig and not defs and not ctx.prods:
            return False, None
        info = []
        for e in eqs:
            a, b = e.children()
            p = p_add(to_poly(ctx, a), to_poly(ctx, b), -1)
            nf, cof = reduce_poly(ctx, p, trig, defs)
            if nf:
                return False, None
            # the identity, closed, to z3:  a - b - sum q_i h_i == 0
            hs = {('trig', s): h for s, c, h in trig}
            hs.update({('def', k): h for k, (pe, h) in defs.items()})
            hs.update({('prod', q_, y_): h_ for q_, y_, _p, h_ in ctx.prods})
            comb = z3.RealVal(0)
            for key, q in cof.items():
                if q:
                    comb = comb + to_expr(ctx, q) * hs[key]
            lhs = a - b
            if lhs.sort() != z3.RealSort():
                lhs = z3.ToReal(lhs)
            ident = lhs - comb
            # generalise: every opaque atom (division by a symbol, function application, ...) becomes a fresh real;
            # an identity in the fresh symbols holds in particular for the atoms' values
            subs = []
            fresh_of = {}
            for k, at in ctx.atoms.items():
                if not (z3.is_const(at) and at.decl().kind() == z3.Z3_OP_UNINTERPRETED):
                    fr = z3.Real('atom!%d' % k) if at.sort() == z3.RealSort() else z3.Int('atom!%d' % k)
                    subs.append((at, fr))
                    fresh_of[k] = fr
            # applications that were identified with a representative (equal argument polynomials): z3 must agree that
            # the arguments are equal; then the member gets the representative's symbol (congruence)
            for mem, rep in ctx.merged:
                chk = z3.Solver()
                chk.set('timeout', 5000)
                chk.add(z3.Or([x != y for x, y in zip(mem.children(), rep.children())]))
                if chk.check() != z3.unsat:
                    return False, None
                if rep.get_id() in fresh_of:
                    subs.append((mem, fresh_of[rep.get_id()]))
            # larger atoms first so that an atom nested in another one is not rewritten underneath it
            subs.sort(key=lambda t: -len(t[0].sexpr()))
            for at, fr in subs:
                ident = z3.substitute(ident, (at, fr))
            s = z3.Solver()
            s.set('timeout', timeout_ms)
            s.add(ident != 0)
            if s.check() != z3.unsat:
                return False, None
            info.append(len([q for q in cof.values() if q]))
        return True, 'hypotheses used per equality: %s' % info
    except (NotPoly, z3.Z3Exception, RecursionError):
        return False, None
