import sys
import os
import json
import argparse


def main():
    ap = argparse.ArgumentParser()
    ap.add_argument('prop')
    ap.add_argument('--tier', default=os.environ.get('VERIF_TIER', 'quick'))
    ap.add_argument('--replay')
    ap.add_argument('--workers', type=int, default=None)
    a = ap.parse_args()
    sys.path.insert(0, os.path.dirname(os.path.dirname(os.path.abspath(__file__))))
    from contracts.registry import REGISTRY, COMMON_ASSUMPTIONS
    from pyvc.runner import check_property
    if a.replay:
        with open(a.replay) as f:
            print(f.read())
        return 0
    if a.prop not in REGISTRY:
        print('unknown or not-applicable property %s' % a.prop)
        return 3
    r = REGISTRY[a.prop]
    tier = a.tier if a.tier in ('quick', 'thorough') else 'quick'
    try:
        return check_property(a.prop, r['module'], tier=tier, native=r.get('native'),
                              workers=a.workers, level=r.get('level', 'proof'),
                              undecided_clauses=r.get('undecided', []),
                              assumptions=COMMON_ASSUMPTIONS + r.get('assumptions', []),
                              trusted=r.get('trusted', []),
                              extra_evidence=r.get('extra'))
    except Exception as e:
        import traceback
        traceback.print_exc()
        print('CHECKER-PROBLEM %s' % e)
        return 3


if __name__ == '__main__':
    sys.exit(main())
