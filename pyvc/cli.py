import sys
import os
import json
import argparse


def main():
    ap = argparse.ArgumentParser()
    ap.add_argument('prop')
    ap.add_argument('--tier', default=os.environ.get('VERIF_TIER', 'quick'))
    ap.add_argument('--replay')
    ap.add_argument('--workers', type=int, default=None)
    a = ap.parse_args()
    sys.path.insert(0, os.path.dirname(os.path.dirname(os.path.abspath(__file__))))
    from contracts.registry import REGISTRY, COMMON_ASSUMPTIONS
    from pyvc.runner import check_property
    if a.replay:
        with open(a.replay) as f:
            d = json.load(f)
        print(json.dumps(d, indent=1)[:6000])
        v = d.get('violation') or {}
        if d.get('kind') == 'native-counterexample' and v.get('script') and v.get('input') is not None:
            from pyvc.runner import native_python
            r = native_python(v['script'], ['replay', json.dumps(v['input'])])
            ids = [x.get('id') for x in r.get('violations', [])]
            print('REPLAY on the current tree: %d violation(s) %s' % (len(ids), ids[:5]))
            return 1 if ids else 0
        if d.get('native_replay'):
            print('REPLAY (recorded): %s' % d['native_replay'])
        return 0
    if a.prop not in REGISTRY:
        print('unknown or not-applicable property %s' % a.prop)
        return 3
    r = REGISTRY[a.prop]
    tier = a.tier if a.tier in ('quick', 'thorough') else 'quick'
    os.environ['VERIF_TIER_EFFECTIVE'] = tier
    try:
        return check_property(a.prop, r['module'], tier=tier, native=r.get('native'),
                              workers=a.workers, level=r.get('level', 'proof'),
                              undecided_clauses=r.get('undecided', []),
                              assumptions=COMMON_ASSUMPTIONS + r.get('assumptions', []),
                              trusted=r.get('trusted', []),
                              extra_evidence=r.get('extra'))
    except Exception as e:
        import traceback
        traceback.print_exc()
        print('CHECKER-PROBLEM %s' % e)
        return 3


if __name__ == '__main__':
    sys.exit(main())
