#!/bin/bash
# Build the overlay interpreter: /venv's python 3.12 + its site-packages (numpy, scipy, the repo)
# plus the solver wheels from the offline wheelhouse.  Offline, idempotent.
set -e
cd "$(dirname "$0")"
if [ ! -x .venv/bin/python ] || ! .venv/bin/python -c "import z3, numpy" 2>/dev/null; then
  rm -rf .venv
  /venv/bin/python -m venv .venv
  PIP_NO_INDEX=1 .venv/bin/pip install -q --no-index --find-links /opt/veriftools/wheels \
      z3-solver cvc5 crosshair-tool deal icontract jsonschema >/dev/null 2>&1 || \
  PIP_NO_INDEX=1 .venv/bin/pip install -q --no-index --find-links /opt/veriftools/wheels \
      z3-solver cvc5 crosshair-tool deal icontract
  echo "import site; site.addsitedir('/venv/lib/python3.12/site-packages')" \
      > .venv/lib/python3.12/site-packages/_venv_overlay.pth
fi
.venv/bin/python -c "import z3, numpy, scipy; print('setup ok: z3', z3.get_version_string(), 'numpy', numpy.__version__)"
