#!/usr/bin/env python3
"""rewrite the table between the seed-table markers of DESIGN.md from seeded/MATRIX.md and seeded/<id>/meta.json"""
import json
import os
import re
V = '/verif'
rows = []
for line in open(V + '/seeded/MATRIX.md'):
    c = [x.strip() for x in line.strip().strip('|').split('|')]
    if len(c) < 5 or c[0] in ('seed', '') or c[0].startswith('---'):
        continue
    sid, prop, rc, ded, nat = c[:5]
    meta = {}
    try:
        meta = json.load(open('%s/seeded/%s/meta.json' % (V, sid)))
    except Exception:
        pass
    need = re.sub(r'\s+', ' ', str(meta.get('needs_to_manifest', ''))).replace('|', '/')
    if len(need) > 170:
        need = need[:167] + '...'
    dn = ded.split(':', 1)
    nn = nat.split(':', 1)
    first = dn[1].split(' ; ')[0].strip() if len(dn) > 1 else ''
    rows.append('| %s | %s | %s | %s%s | %s |' % (sid, need, rc, dn[0], (': `%s`' % first) if first else '', nn[0]))
tab = ['| seed | what the change needs to manifest | exit | deductive: failing obligations (first one named) | native inputs |',
       '|------|-----------------------------------|------|---------------------------------------------------|---------------|'] + rows
p = V + '/DESIGN.md'
s = open(p).read()
a, b = '<!-- seed-table-begin -->', '<!-- seed-table-end -->'
if a in s and b in s:
    s = s[:s.index(a) + len(a)] + '\n' + '\n'.join(tab) + '\n' + s[s.index(b):]
    open(p, 'w').write(s)
    print('DESIGN.md table rewritten: %d seeds' % len(rows))
else:
    print('markers not found in DESIGN.md')
