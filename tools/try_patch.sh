#!/bin/bash
# run every check (or the listed ones) against a scratch copy of /repo with a patch applied; nothing in /repo or in
# /verif/evidence is touched.   usage: tools/try_patch.sh <patch> <label> [property ...]
PATCH=$1; LABEL=$2; shift 2
S=/tmp/try_patch_$LABEL
rm -rf $S; mkdir -p $S/repo $S/out
git -C /repo archive HEAD | tar -x -C $S/repo
(cd $S/repo && git init -q . && git apply $PATCH) || { echo "patch failed"; exit 9; }
cd /verif
PROPS="$@"
[ -z "$PROPS" ] && PROPS=$(python3 -c "import json; print(' '.join(c['property_id'] for c in json.load(open('MANIFEST.json'))['checks']))")
for p in $PROPS; do
  ( PYMININEC_REPO=$S/repo VERIF_OUTDIR=$S/out ./check $p > $S/out/$p.log 2>&1; echo "$LABEL $p exit=$? $(tail -1 $S/out/$p.log | cut -c1-140)" ) &
done
wait
grep -h "^VIOLATION\|^UNDECIDED\|^CHECKER" $S/out/*.log | cut -c1-260 | head -40
rm -rf $S/repo
