#!/bin/bash
# usage: try_seed.sh <patch.diff> <prop> [tier]   -- applies a seeded change to /repo, runs the check, restores /repo
P=$1; PROP=$2; TIER=${3:-quick}
cd /repo || exit 9
git -C /repo diff --quiet || { echo "repo dirty, refusing"; exit 9; }
git -C /repo apply "$P" || { echo "patch does not apply"; exit 9; }
cd /verif; ./check $PROP --tier $TIER 2>&1 | cut -c1-260 | grep -v "^NOTE" | tail -12; rc=${PIPESTATUS[0]}
git -C /repo checkout -- . ; git -C /repo status --short | head -3
echo "check exit=$rc"
git -C /verif checkout -- evidence 2>/dev/null
