#!/bin/bash
# run every claimed check on the current tree (quick tier unless given), print one line each
cd /verif
TIER=${1:-quick}
for p in $(python3 -c "import json; print(' '.join(c['property_id'] for c in json.load(open('MANIFEST.json'))['checks']))"); do
  ./check $p --tier $TIER > /tmp/run_all_$p.log 2>&1; rc=$?
  echo "$p exit=$rc $(tail -1 /tmp/run_all_$p.log | cut -c1-150)"
done
