#!/bin/bash
# deductive units of a property on a scratch copy of /repo with one seeded change applied (no canaries, no native stage)
# usage: tools/scratch_seed.sh <seed-id> [unit-substring]
id=$1; prop=${id:0:3}
S=/tmp/scratch_seed_$id
rm -rf $S; mkdir -p $S
git -C /repo archive HEAD | tar -x -C $S
P=/verif/seeded/$id/patch.diff
[ -f /verif/seeded/$id/patch_on_fixed_tree.diff ] && P=/verif/seeded/$id/patch_on_fixed_tree.diff
(cd $S && git init -q . && git apply $P) || { echo "patch failed"; exit 9; }
cd /verif
PYMININEC_REPO=$S .venv/bin/python dbg.py contracts.$prop $2 -v 2>&1 | grep -v "^   ok"
rm -rf $S
