#!/bin/bash
# one row of the seed matrix, on a scratch copy of /repo (nothing in /repo or /verif/evidence is touched)
id=$1
prop=${id:0:3}
d=/verif/seeded/$id
P=$d/patch.diff
[ -f $d/patch_on_fixed_tree.diff ] && P=$d/patch_on_fixed_tree.diff
S=/tmp/seed_row_$id
rm -rf $S; mkdir -p $S/repo $S/out /verif/seeded/.matrix_rows
git -C /repo archive HEAD | tar -x -C $S/repo
if ! (cd $S/repo && git init -q . && git apply $P 2>/dev/null); then echo "| $id | $prop | - | patch does not apply | |" > /verif/seeded/.matrix_rows/$id; rm -rf $S; exit 0; fi
cd /verif
PYMININEC_REPO=$S/repo VERIF_OUTDIR=$S/out ./check $prop > $S/log 2>&1; rc=$?
ded=$(grep "^VIOLATION" $S/log | grep -c "obligation=")
nat=$(grep "^VIOLATION" $S/log | grep -vc "obligation=")
und=$(grep -c "^UNDECIDED" $S/log)
dnames=$(grep "^VIOLATION" $S/log | grep "obligation=" | sed -e 's/.*obligation=//' -e 's/ no-failing-input-found$//' | head -2 | sed 's/|/\//g' | tr '\n' ';' | sed 's/;$//; s/;/ ; /')
nnames=$(grep "^VIOLATION" $S/log | grep -v "obligation=" | sed -e 's/.*replays\///' -e 's/\.json.*//' -e 's/|/\//g' | head -2 | tr '\n' ';' | sed 's/;$//; s/;/ ; /')
echo "| $id | $prop | $rc | $ded: $dnames | $nat: $nnames |" > /verif/seeded/.matrix_rows/$id
echo "$id rc=$rc ded=$ded nat=$nat undecided-units=$und"
rm -rf $S
