#!/bin/bash
# all deductive units (no canaries, no native) against $PYMININEC_REPO (default /repo); prints failing lines only
cd /verif
for m in C04 C07 C08 C09 C10 C11 C12 C13 C14 C15 C16 C17 C18 C19 C20; do
  ( .venv/bin/python dbg.py contracts.$m -v > /tmp/dbg_all_$m.log 2>&1; echo "$m units=$(grep -c '^==' /tmp/dbg_all_$m.log) fail=$(grep -c 'FAIL' /tmp/dbg_all_$m.log) err=$(grep '^==' /tmp/dbg_all_$m.log | grep -vc 'err None')" ) &
done
wait
