#!/bin/bash
# usage: confirm_seed.sh <worktree> <seed-id>  -- confirm a sub-agent's seeded change independently and store it under /verif/seeded/<seed-id>/
WT=$1; ID=$2
OUT=/verif/seeded/$ID; mkdir -p $OUT
cd $WT || exit 9
DEMO=demo.py; [ -f test_demo.py ] && DEMO=test_demo.py
git diff -- mininec > $OUT/patch.diff
[ -s $OUT/patch.diff ] || { echo "$ID: empty patch"; exit 9; }
cp $DEMO $OUT/demo.py
# with patch
timeout 600 /venv/bin/python $DEMO > $OUT/demo_patched.log 2>&1; RC_P=$?
git stash -q -- mininec
timeout 600 /venv/bin/python $DEMO > $OUT/demo_unpatched.log 2>&1; RC_U=$?
git stash pop -q
# test suite with patch
timeout 1500 /venv/bin/python -m pytest -q -p no:cacheprovider -n 6 --timeout=900 test > $OUT/tests_patched.log 2>&1
SUMMARY=$(tail -1 $OUT/tests_patched.log)
FAILED=$(grep -E "^FAILED" $OUT/tests_patched.log | sed 's/ - .*//' | tr '\n' ' ')
python3 - "$ID" "$RC_P" "$RC_U" "$SUMMARY" "$FAILED" "$WT" <<'PY'
import json,sys,os
id_,rcp,rcu,summary,failed,wt=sys.argv[1:7]
meta={}
try: meta=json.load(open(os.path.join(wt,'meta.json')))
except Exception as e: meta={'agent_meta_error':str(e)}
meta.update({'seed_id':id_,'confirmed':{'demo_exit_with_patch':int(rcp),'demo_exit_without_patch':int(rcu),
 'test_suite_with_patch':summary,'failed_tests_with_patch':failed,
 'commands':['cd <worktree> && /venv/bin/python demo.py (with and without the patch)','cd <worktree> && /venv/bin/python -m pytest -q -p no:cacheprovider -n 6 --timeout=900 test']}})
json.dump(meta,open('/verif/seeded/%s/meta.json'%id_,'w'),indent=1)
print(id_,'demo patched rc',rcp,'unpatched rc',rcu,'|',summary,'|',failed)
PY
