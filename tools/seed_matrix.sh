#!/bin/bash
# for every seeded change: apply to /repo, run the check of its property, restore; write seeded/MATRIX.md
cd /verif
OUT=/verif/seeded/MATRIX.md
echo "| seed | property | exit | deductive obligations failing | native violations | first lines |" > $OUT
echo "|------|----------|------|-------------------------------|-------------------|-------------|" >> $OUT
for d in /verif/seeded/*/; do
  id=$(basename $d)
  prop=${id:0:3}
  P=$d/patch.diff
  [ -f $d/patch_on_fixed_tree.diff ] && P=$d/patch_on_fixed_tree.diff
  git -C /repo diff --quiet || { echo "repo dirty"; exit 9; }
  if ! git -C /repo apply $P 2>/dev/null; then echo "| $id | $prop | - | patch does not apply | | |" >> $OUT; continue; fi
  ./check $prop > /tmp/seed_$id.log 2>&1; rc=$?
  git -C /repo checkout -- .
  ded=$(grep "^VIOLATION" /tmp/seed_$id.log | grep -c "obligation=")
  nat=$(grep "^VIOLATION" /tmp/seed_$id.log | grep -vc "obligation=")
  first=$(grep "^VIOLATION" /tmp/seed_$id.log | head -2 | sed -e 's/.*replay=\/verif\/replays\///' -e 's/|/\//g' | cut -c1-110 | tr '\n' ';')
  echo "| $id | $prop | $rc | $ded | $nat | $first |" >> $OUT
  echo "$id rc=$rc ded=$ded nat=$nat"
done
git -C /verif checkout -- evidence 2>/dev/null
