#!/bin/bash
# for every seeded change (or the listed ones): apply it to a scratch copy of /repo, run the check of its property there,
# collect one row; then write seeded/MATRIX.md and refresh the table of DESIGN.md section 10.4 (tools/design_matrix.py).
# /repo itself is never patched.   usage: tools/seed_matrix.sh [seed-id ...]
cd /verif
if [ $# -gt 0 ]; then LIST="$@"; else LIST=$(ls -d /verif/seeded/*/ | xargs -n1 basename); fi
echo $LIST | tr ' ' '\n' | xargs -P 5 -n 1 tools/seed_row.sh
OUT=/verif/seeded/MATRIX.md
echo "| seed | property | exit | deductive: failing obligations (first two) | native: violations (first two) |" > $OUT
echo "|------|----------|------|-------------------------------------------|-------------------------------|" >> $OUT
cat /verif/seeded/.matrix_rows/* >> $OUT
python3 tools/design_matrix.py
