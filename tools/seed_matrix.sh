#!/bin/bash
# for every seeded change: apply to /repo, run the check of its property, restore; write seeded/MATRIX.md
# and refresh the table of DESIGN.md section 10.4 (tools/design_matrix.py)
# usage: tools/seed_matrix.sh [seed-id ...]   (default: all; with ids only those rows are re-run and merged)
cd /verif
OUT=/verif/seeded/MATRIX.md
ROWS=/verif/seeded/.matrix_rows
mkdir -p $ROWS
if [ $# -gt 0 ]; then LIST="$@"; else LIST=$(ls -d /verif/seeded/*/ | xargs -n1 basename); fi
for id in $LIST; do
  d=/verif/seeded/$id
  prop=${id:0:3}
  P=$d/patch.diff
  [ -f $d/patch_on_fixed_tree.diff ] && P=$d/patch_on_fixed_tree.diff
  git -C /repo diff --quiet || { echo "repo dirty"; exit 9; }
  if ! git -C /repo apply $P 2>/dev/null; then echo "| $id | $prop | - | patch does not apply | |" > $ROWS/$id; continue; fi
  ./check $prop > /tmp/seed_$id.log 2>&1; rc=$?
  git -C /repo checkout -- .
  ded=$(grep "^VIOLATION" /tmp/seed_$id.log | grep -c "obligation=")
  nat=$(grep "^VIOLATION" /tmp/seed_$id.log | grep -vc "obligation=")
  dnames=$(grep "^VIOLATION" /tmp/seed_$id.log | grep "obligation=" | sed -e 's/.*obligation=//' -e 's/ no-failing-input-found$//' | head -2 | sed 's/|/\//g' | tr '\n' ';' | sed 's/;$//; s/;/ ; /')
  nnames=$(grep "^VIOLATION" /tmp/seed_$id.log | grep -v "obligation=" | sed -e 's/.*replay=\/verif\/replays\///' -e 's/\.json.*//' -e 's/|/\//g' | head -2 | tr '\n' ';' | sed 's/;$//; s/;/ ; /')
  echo "| $id | $prop | $rc | $ded: $dnames | $nat: $nnames |" > $ROWS/$id
  echo "$id rc=$rc ded=$ded nat=$nat"
done
git -C /verif checkout -- evidence 2>/dev/null
echo "| seed | property | exit | deductive: failing obligations (first two) | native: violations (first two) |" > $OUT
echo "|------|----------|------|-------------------------------------------|-------------------------------|" >> $OUT
cat $ROWS/* >> $OUT
python3 tools/design_matrix.py
