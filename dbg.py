import sys, importlib
from pyvc.runner import run_unit
mod = importlib.import_module(sys.argv[1])
sel = next((a for a in sys.argv[2:] if not a.startswith('-')), None)
from pyvc.runner import all_units
for u in all_units(mod):
    if sel and sel not in u.name: continue
    r = run_unit(u)
    print('==', u.name, 'paths', r['paths'], 'err', r['error'], 'wall', r.get('wall_s'))
    for n, a in sorted(r['obligations'].items()):
        st = 'ok' if not (a['failed'] or a['unknown']) else 'FAIL'
        print('   %-4s %s x%d' % (st, n, a['instances']), ((a['model'], a.get('detail')) if st=='FAIL' and '-v' in sys.argv else ''))
