import Mathlib.LinearAlgebra.Matrix.NonsingularInverse
import Mathlib.Tactic
open Matrix
variable {n : Type*} [Fintype n] [DecidableEq n] {K : Type*} [Field K]

theorem mulVec_add_single (A : Matrix n n K) (j : n) (c : K) (x' : n → K) :
    (A + c • Matrix.single j j (1:K)).mulVec x'
      = A.mulVec x' + (c * x' j) • Pi.single j (1:K) := by
  ext i
  simp only [Matrix.add_mulVec, Pi.add_apply, Pi.smul_apply, smul_eq_mul]
  congr 1
  simp [Matrix.mulVec, dotProduct, Matrix.single, Matrix.smul_apply, Pi.single_apply]
  by_cases h : j = i
  · subst h; simp
  · simp [h]; intro h'; exact absurd h'.symm h

/-- A x = βV e_j, (A + c E_jj) x' = βV e_j  ⟹  V/x'_j = V/x_j + c/β. -/
theorem load_series (A : Matrix n n K) (hA : IsUnit A.det) (j : n) (c β V : K)
    (x x' : n → K)
    (hx  : A.mulVec x = (β * V) • Pi.single j (1:K))
    (hx' : (A + c • Matrix.single j j (1:K)).mulVec x' = (β * V) • Pi.single j (1:K))
    (hβ : β ≠ 0) (hxj : x j ≠ 0) (_hxj' : x' j ≠ 0) :
    V / x' j = V / x j + c / β := by
  set y : n → K := (A⁻¹).mulVec (Pi.single j (1:K)) with hy
  have hinv : A⁻¹ * A = 1 := Matrix.nonsing_inv_mul A hA
  have e1 : x = (β * V) • y := by
    have := congrArg (A⁻¹).mulVec hx
    rw [Matrix.mulVec_mulVec, hinv, Matrix.one_mulVec, Matrix.mulVec_smul] at this
    exact this
  have e2 : x' = (β * V - c * x' j) • y := by
    rw [mulVec_add_single] at hx'
    have h2 : A.mulVec x' = (β * V - c * x' j) • Pi.single j (1:K) := by
      rw [sub_smul]; exact eq_sub_of_add_eq hx'
    have := congrArg (A⁻¹).mulVec h2
    rw [Matrix.mulVec_mulVec, hinv, Matrix.one_mulVec, Matrix.mulVec_smul] at this
    exact this
  have f1 : x j = β * V * y j := by
    have := congrFun e1 j; simpa [Pi.smul_apply, smul_eq_mul] using this
  have f2 : x' j = (β * V - c * x' j) * y j := by
    have := congrFun e2 j; simpa [Pi.smul_apply, smul_eq_mul] using this
  have hy0 : y j ≠ 0 := by
    intro h; rw [h, mul_zero] at f1; exact hxj f1
  have hV : V ≠ 0 := by
    intro h; rw [h, mul_zero, zero_mul] at f1; exact hxj f1
  rw [f1]
  have key : x' j * (1 + c * y j) = β * V * y j := by
    have := f2; linear_combination this
  have h1 : (1 + c * y j) ≠ 0 := by
    intro h; rw [h, mul_zero] at key
    exact (mul_ne_zero (mul_ne_zero hβ hV) hy0) key.symm
  have hx'eq : x' j = β * V * y j / (1 + c * y j) := by
    rw [eq_div_iff h1]; exact key
  rw [hx'eq]
  field_simp
